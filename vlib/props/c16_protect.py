"""
C16 - a protected program never discloses its text in direct mode.

A case is a generated program whose text carries unique markers (string literals, REM text, DATA
items, variable names, a numeric constant), a way of getting it into a session created with
hide_protected=True (LOAD / RUN"file" / CHAIN"file"; left just loaded, run to its end, stopped by
STOP, stopped inside its error handler, or stopped by a syntax error in interactive mode), and a
list of direct-mode probe lines.  Oracles:

 * every probe built on LIST, LLIST, EDIT, SAVE (ASCII/tokenised), PEEK, BSAVE, MERGE, CHAIN MERGE
   or on entering/deleting a program line reports Illegal function call (5) - also after a colon,
   after THEN, inside a direct-mode FOR loop, after a failed statement;
 * after every probe no marker occurs in the console stream, on the screen, in the LPT1: stream,
   in any file on the mount, or in the variables the probes assign;
 * SAVE "f",P succeeds and the file is byte-identical to the protected original;
 * afterwards RUN prints exactly what the unprotected original prints in an ordinary session.
"""
import os
import random

from hypothesis import strategies as st

from vlib.core import Result, Unit
from vlib import harness

ID = 'C16'
LEVEL = 'exploration'
TECHNIQUE = ("Hypothesis-generated marker programs x direct-mode probe lists against a "
             "hide_protected session; marker scan over console, screen, printer, files, variables; "
             "round trip of SAVE ,P; differential run against the unprotected original")
RULE = ("Programs of 4-10 lines from statement templates carrying 6-character markers; entry by "
        "LOAD, RUN\"file\" or CHAIN\"file\"; states loaded / run+CLEAR / stopped by STOP / stopped "
        "inside the error handler / syntax error under the interactive loop; 12-30 probes per case "
        "from: LIST and LLIST with every range form and to a file, SCRN:, LPT1:; EDIT; SAVE plain "
        "and ,A; PEEK at addresses inside the program area, in expressions, assignments, after DEF "
        "SEG, in a direct FOR loop; BSAVE over the program area; MERGE, CHAIN MERGE; entering, "
        "replacing and deleting lines; each also behind 'X=1:', 'PRINT 1;:', 'IF 1 THEN', and after "
        "ERROR 5; neutral statements; multi-step bypass histories: POKE / BLOAD (flag and memory "
        "images saved before the protected program was loaded) / DEF SEG aliases aimed at the "
        "protection flag (address found by diffing a PEEK dump, not by name) and at the program "
        "area, each followed by disclosure probes; finally two replacement histories per case: "
        "{pointer as the final RUN left it, reloaded, reloaded+RUN, reloaded+GOTO n} x {NEW, "
        "CLEAR:NEW, LOAD/CHAIN/RUN of a shorter ASCII, tokenised or protected program, NEW + typed "
        "lines} x {LIST, SAVE ,A, tokenised SAVE, SAVE ,P reopened in an ordinary session, BSAVE "
        "and a PEEK sweep over the old program area}: no marker may come back.  Non-trivial: every probe that "
        "reaches a statement touching program memory (all but the neutral ones); a case is "
        "non-trivial if it holds such a probe; distinct = distinct case (program x state x entry x "
        "probe list).")
ASSUMPTIONS = [
    "disclosure is detected through the markers (>= 5 characters each, present in every line of the "
    "program in clear in both the listed and the tokenised form)",
    "strings the program itself assigned are program output: probes run right after loading or "
    "after CLEAR and only variables assigned by probes are scanned",
    "an empty file left behind by a refused SAVE/LIST is not a disclosure",
    "statements that replace or edit the program by line ranges (NEW, LOAD, DELETE, RENUM) are "
    "outside the statement and not probed",
]

ALPHA = 'BGHJKQVWXZ'          # no BASIC keyword can be spelled with these letters


# ---------------------------------------------------------------------------------------------
# program generation (a deterministic function of the case fields)

def make_program(seed, nlines, state):
    rng = random.Random(seed)
    markers = []

    def mk():
        m = 'ZQ' + ''.join(rng.choice(ALPHA) for _ in range(4))
        markers.append(m)
        return m

    num = ''.join(rng.choice('56789') for _ in range(5))
    markers.append(num)
    templates = [
        lambda: 'REM %s %s' % (mk(), mk()),
        lambda: 'A$="%s":PRINT A$;LEN(A$)' % mk(),
        lambda: '%s=%s:PRINT %s-%s' % ((lambda v: (v, num, v, num))(mk())),
        lambda: 'PRINT "%s";1+2' % mk(),
        lambda: 'FOR I=1 TO 3:PRINT I*I;:NEXT:PRINT' + " ' " + mk(),
        lambda: 'IF 2>1 THEN PRINT "%s" ELSE PRINT "%s"' % (mk(), mk()),
        lambda: 'B$="%s"+"%s":PRINT MID$(B$,3,5)' % (mk(), mk()),
        lambda: 'X=X+7:PRINT X;"%s"' % mk(),
    ]
    body = []
    for _ in range(nlines):
        body.append(rng.choice(templates)())
    lines = []
    n = 10
    if state == 'syntax':
        lines.append((5, '%s %s ,' % (mk(), mk())))          # Syntax error when executed
    if state == 'handler':
        lines.append((8, 'ON ERROR GOTO 900'))
    for i, b in enumerate(body):
        lines.append((n, b))
        if i == len(body) // 2:
            if state == 'stopped':
                lines.append((n + 3, 'STOP'))
            if state == 'handler':
                lines.append((n + 3, 'ERROR 5'))
        n += 10
    lines.append((n, 'READ D$:PRINT D$'))
    lines.append((n + 10, 'DATA %s,%s' % (mk(), mk())))
    lines.append((n + 20, 'END'))
    if state == 'handler':
        lines.append((900, 'PRINT "H";ERR:STOP:REM %s' % mk()))
    return lines, markers


def program_text(lines):
    return '\r\n'.join('%d %s' % (n, t) for n, t in lines) + '\r\n'


# ---------------------------------------------------------------------------------------------
# probes: [class, text]; classes with an expectation are in MUST_IFC

MUST_IFC = {'LIST', 'LLIST', 'EDIT', 'SAVE', 'PEEK', 'BSAVE', 'MERGE', 'CHAIN-MERGE', 'LINE'}
PREFIXES = ['', '', '', 'X=1:', 'PRINT 1;:', 'IF 1 THEN ']


def build_probes(rng, linenos, code_start, code_size, count, flag=1450, ds=0):
    def ln():
        return rng.choice(linenos)

    def addr():
        return code_start + rng.randrange(0, max(1, code_size))

    def lst(word):
        a, b = sorted((ln(), ln()))
        return rng.choice([
            word, '%s %d' % (word, a), '%s %d-' % (word, a), '%s -%d' % (word, b),
            '%s %d-%d' % (word, a, b), '%s .' % word, '%s 1-65000' % word])

    pool = [
        lambda: ['LIST', lst('LIST')],
        lambda: ['LIST', lst('LIST')],
        lambda: ['LIST', rng.choice(['LIST ,"Z:LS.TXT"', 'LIST %d,"SCRN:"' % ln(),
                                     'LIST ,"LPT1:"', 'LIST %d-,"LS2.TXT"' % ln()])],
        lambda: ['LLIST', lst('LLIST')],
        lambda: ['EDIT', 'EDIT %d' % ln()],
        lambda: ['SAVE', rng.choice(['SAVE "SA",A', 'SAVE "SB"', 'SAVE "Z:SC.BAS",A'])],
        lambda: ['PEEK', rng.choice([
            'PRINT PEEK(%d)' % addr(), 'Q%%=PEEK(%d)' % addr(),
            'DEF SEG:PRINT PEEK(%d)' % addr(), 'PA$=CHR$(PEEK(%d))' % addr(),
            'PRINT PEEK(%d)+PEEK(%d)' % (addr(), addr()),
            'FOR I=%d TO %d:PRINT PEEK(I);:NEXT' % ((lambda a: (a, a + 12))(addr())),
            'PRINT PEEK(&H30)+256*PEEK(&H31)', 'PRINT PEEK(%d)' % rng.choice([0, 1450, 65535])])],
        lambda: ['PEEK', 'PRINT PEEK(%d)' % addr()],
        lambda: ['BSAVE', rng.choice(['BSAVE "BS",%d,%d' % (code_start, min(code_size, 200) or 8),
                                      'BSAVE "BT",%d,32' % addr(), 'BSAVE "BU",0,65535'])],
        lambda: ['MERGE', 'MERGE "M.BAS"'],
        lambda: ['CHAIN-MERGE', rng.choice(['CHAIN MERGE "M.BAS"', 'CHAIN MERGE "M.BAS",1000',
                                            'CHAIN MERGE "M.BAS",1000,ALL',
                                            'CHAIN MERGE "E.BAS"', 'CHAIN MERGE "E.BAS",%d' % ln()])],
        lambda: ['LINE', rng.choice(['%d PRINT "X"' % ln(), '%d' % ln(), '7 REM NEW',
                                     '%d REM' % (ln() + 1)])],
        lambda: ['NEUTRAL', rng.choice(['X=1', 'PRINT 2+2', 'CLEAR', 'DEF SEG=0', 'DEF SEG',
                                        'ERROR 5', 'PRINT FRE(0)', 'FILES', 'PRINT VARPTR(X)',
                                        'PRINT ERR;ERL', 'WIDTH 80', 'KEY OFF'])],
    ]
    def disclosure():
        return rng.choice([
            ['LIST', lst('LIST')], ['SAVE', 'SAVE "SD",A'], ['PEEK', 'PRINT PEEK(%d)' % addr()],
            ['EDIT', 'EDIT %d' % ln()], ['BSAVE', 'BSAVE "BV",%d,64' % code_start],
            ['LLIST', 'LLIST'], ['LIST', 'LIST ,"LS3.TXT"']])

    def bypass():
        """Statements that write memory, aimed at the protection flag or the program area; files
        they use were prepared before the protected program was loaded."""
        k = rng.randrange(1, 4)
        return ['BYPASS', rng.choice([
            'POKE %d,0' % flag, 'DEF SEG:POKE %d,0' % flag,
            'DEF SEG=%d:POKE %d,0' % (ds - k, flag + 16 * k),
            'DEF SEG=&H%X:POKE &H%X,0' % (ds - k, flag + 16 * k),
            'X=0:POKE %d,X' % flag, 'FOR I=%d TO %d:POKE I,0:NEXT' % (flag - 1, flag + 1),
            'BLOAD "FLAG0.BIN"', 'BLOAD "FLAG0.BIN",%d' % flag, 'DEF SEG:BLOAD "FLAG0.BIN"',
            'DEF SEG=%d:BLOAD "FLAG0.BIN",%d' % (ds - k, flag + 16 * k),
            'X=1:BLOAD "FLAG0.BIN"', 'IF 1 THEN BLOAD "FLAG0.BIN"', 'BLOAD "LOW.BIN"',
            'BLOAD "LOW.BIN",%d' % (flag - 4),
            'BLOAD "ZERO.BIN",%d' % (code_start + 4), 'POKE %d,0' % (code_start + 1),
            'POKE %d,58' % addr(), 'DEF SEG=%d:POKE %d,0' % (ds + 1, code_start - 12),
            'ERROR 5:BLOAD "FLAG0.BIN"', 'POKE %d,0:LIST' % flag, 'BLOAD "FLAG0.BIN":LIST',
        ])]

    probes = []
    for _ in range(count):
        if rng.random() < 0.3:
            probes.append(bypass())
            probes.append(disclosure())
            if rng.random() < 0.5:
                probes.append(disclosure())
            continue
        cls, text = rng.choice(pool)()
        if cls in MUST_IFC and cls != 'LINE':
            pre = rng.choice(PREFIXES)
            if pre.startswith('IF') and text.startswith(('FOR', 'DEF SEG:')):
                pre = ''
            text = pre + text
        probes.append([cls, text])
    return probes


# ---------------------------------------------------------------------------------------------
# where the protection flag lives: found by observation, not by name.  A scanner program dumps the
# data segment below the program area once unprotected and once loaded from its ,P file (PEEK is
# allowed to a running program); the bytes that differ are the flag.  Done once per process.

_FLAG = {}
SCANNER = ('10 DEF SEG:OPEN "O",1,"SCAN.DAT":FOR I=0 TO %d:PRINT#1,CHR$(PEEK(I));:NEXT:CLOSE\r\n')


def flag_addresses():
    if 'a' in _FLAG:
        return _FLAG['a']
    found = []
    sb = harness.Sandbox()
    try:
        with harness.Sess(sandbox=sb, hide_protected=True, budget=400000) as s:
            top = int(s.evaluate('PEEK(&H30)+256*PEEK(&H31)').value) - 1
            with open(os.path.join(sb.z, 'S.TXT'), 'wb') as f:
                f.write((SCANNER % top).encode())
            s.execute('LOAD "S.TXT"\nSAVE "SP",P\nRUN')
            with open(os.path.join(sb.z, 'SCAN.DAT'), 'rb') as f:
                plain = f.read()
        with harness.Sess(sandbox=sb, hide_protected=True, budget=400000) as s:
            s.execute('RUN "SP"')
            with open(os.path.join(sb.z, 'SCAN.DAT'), 'rb') as f:
                prot = f.read()
        if len(plain) == len(prot):
            found = [i for i in range(len(plain)) if plain[i] != prot[i]]
    except Exception:           # noqa: B902 -- fall back to the documented address
        found = []
    finally:
        sb.close()
    _FLAG['derived'] = bool(found) and len(found) <= 4
    _FLAG['a'] = found if _FLAG['derived'] else [1450]
    return _FLAG['a']


def scan(blob, markers):
    """Markers occurring in a byte string (case-insensitive on letters)."""
    up = blob.upper()
    return [m for m in markers if m.encode() in up]


def list_files(root):
    out = {}
    for name in sorted(os.listdir(root)):
        p = os.path.join(root, name)
        if os.path.isfile(p):
            with open(p, 'rb') as f:
                out[name] = f.read()
    return out


def check_case(case):
    res = Result()
    state = case['state']
    lines, markers = make_program(case['seed'], case['nlines'], state)
    text = program_text(lines)
    linenos = [n for n, _ in lines]
    rng = random.Random(case['seed'] * 7919 + 13)
    sb = harness.Sandbox()
    try:
        # 1. the unprotected original: reference output, protected file, code geometry
        with harness.Sess(sandbox=sb) as s0:
            with open(os.path.join(sb.z, 'PLAIN.TXT'), 'wb') as f:
                f.write(text.encode('latin-1'))
            o = s0.execute('10 X=1\n20 END\nSAVE "HB"\nSAVE "HP",P\nNEW')
            if o.kind != 'ok' or o.errors:
                raise AssertionError('cannot prepare helper programs: %r' % (o,))
            o = s0.execute('LOAD "PLAIN.TXT"')
            if o.kind != 'ok' or o.errors:
                raise AssertionError('generated program does not load: %r\n%s' % (o, text))
            code_start = s0.impl.memory.code_start
            code_size = s0.impl.program.size()
            o = s0.execute('SAVE "PROT",P')
            if o.kind != 'ok' or o.errors:
                raise AssertionError('cannot save protected original: %r' % (o,))
            # helper files for the bypass histories, made while nothing is protected
            flag = flag_addresses()[0]
            o = s0.execute('DEF SEG:BSAVE "FLAG0.BIN",%d,1\nBSAVE "LOW.BIN",%d,8\n'
                           'BSAVE "ZERO.BIN",%d,16' % (flag, flag - 4, flag))
            if o.kind != 'ok' or o.errors:
                raise AssertionError('cannot prepare helper images: %r' % (o,))
            with open(os.path.join(sb.z, 'FLAG0.BIN'), 'rb') as f:
                hdr = f.read()
            ds = hdr[1] | (hdr[2] << 8)          # BSAVE header: FD seg offset length
            ref = s0.execute('RUN')
            ref_out = (ref.kind, ref.output)
        os.remove(os.path.join(sb.z, 'PLAIN.TXT'))
        with open(os.path.join(sb.z, 'PROT.BAS'), 'rb') as f:
            original = f.read()
        if scan(original, markers):
            res.fail('disclosed.protected-file', 'the ,P file contains %r in clear' % scan(
                original, markers))
        with open(os.path.join(sb.z, 'M.BAS'), 'wb') as f:
            f.write(b'1000 PRINT "MERGED"\r\n1010 END\r\n')
        with open(os.path.join(sb.z, 'H.BAS'), 'wb') as f:
            f.write(b'10 X=1\r\n20 END\r\n')
        with open(os.path.join(sb.z, 'E.BAS'), 'wb') as f:
            f.write(b'\r\n')            # nothing to merge: only chain_'s own guard can refuse it
        lpt = sb.path('lpt1.out')
        # 2. the protected session
        with harness.Sess(sandbox=sb, hide_protected=True,
                          devices={'Z': sb.z, 'LPT1': 'FILE:' + lpt}) as s:
            entry = case['entry']
            if state == 'loaded':
                o = s.execute('LOAD "PROT"')
            elif state == 'syntax':
                s.execute('LOAD "PROT"')
                s.budget = 400
                o = s.interact(u'RUN\r')
                s.budget = 20000
                blob = o.output + b'\n'.join(s.chars())
                if scan(blob, markers):
                    res.fail('disclosed.EDIT-after-syntax-error.console',
                             'interactive RUN shows %r:\n%r' % (scan(blob, markers), o.output[-300:]))
                if o.kind == 'escaped':
                    res.fail('escaped.%s@%s' % (o.exc, o.frame), 'interactive RUN\n%s' % o.tb)
                    return res
                s._recover()
            else:
                o = s.execute({'LOAD': 'LOAD "PROT"\nRUN', 'RUN': 'RUN "PROT"',
                               'CHAIN': 'CHAIN "PROT"'}[entry])
            if o.kind == 'escaped':
                res.fail('escaped.%s@%s' % (o.exc, o.frame), 'entry %s/%s\n%s' % (state, entry, o.tb))
                return res
            if state == 'ran':
                s.execute('CLEAR')
            s.execute('CLS')
            res.label('state.' + state)
            if not s.impl.program.protected:
                raise AssertionError('program not flagged protected after entry %s/%s' % (state, entry))
            probes = build_probes(rng, linenos, code_start, code_size, case['nprobes'], flag, ds)
            res.label('flag-address.%s' % ('derived' if _FLAG.get('derived') else 'fallback'))
            before = list_files(sb.z)
            lpt_seen = 0
            dropped = False
            for cls, ptext in probes:
                if cls == 'EDIT':
                    # EDIT only acts when the interactive loop shows its prompt
                    s.budget = 300
                    o = s.interact(ptext + u'\r')
                    s.budget = 20000
                    if o.kind == 'budget':
                        o.kind = 'ok'
                    s._recover()
                else:
                    o = s.execute(ptext)
                if state == 'handler' and not o.errors and b'H 5 \r\nBreak in 900' in o.output:
                    # the refused statement was trapped by the program's own handler (900 PRINT
                    # "H";ERR:STOP): it did fail with error 5
                    o.errors = [(5, None)]
                where = '%r in state %s (entry %s)\n%s' % (ptext, state, entry, text)
                res.label('probe.' + cls)
                if o.kind == 'escaped':
                    res.fail('escaped.%s@%s' % (o.exc, o.frame), '%s\n%s' % (where, o.tb))
                    return res
                if o.kind == 'budget':
                    res.inconclusive = True
                    return res
                if cls in MUST_IFC:
                    res.nt(True)
                    if o.err != 5:
                        res.fail('not-refused.%s' % cls, '%s\n-> %r' % (where, o))
                elif cls == 'BYPASS':
                    res.nt(True)
                # disclosure scan
                found = scan(o.output, markers)
                if found:
                    res.fail('disclosed.%s.console' % cls, '%s\nconsole shows %r: %r' % (
                        where, found, o.output[:300]))
                found = scan(b'\n'.join(s.chars()), markers)
                if found:
                    res.fail('disclosed.%s.screen' % cls, '%s\nscreen shows %r' % (where, found))
                try:
                    s.impl.files.lpt1_file.do_print()
                except Exception:       # noqa: B902 -- flushing is best effort
                    pass
                if os.path.exists(lpt):
                    with open(lpt, 'rb') as f:
                        f.seek(max(0, lpt_seen - 8))
                        data = f.read()
                    lpt_seen += max(0, len(data) - min(8, lpt_seen))
                    found = scan(data, markers)
                    if found:
                        res.fail('disclosed.%s.printer' % cls, '%s\nLPT1: shows %r' % (where, found))
                now = list_files(sb.z)
                for name, data in now.items():
                    if before.get(name) != data:
                        found = scan(data, markers)
                        if found:
                            res.fail('disclosed.%s.file' % cls, '%s\nfile %s holds %r' % (
                                where, name, found))
                before = now
                for var in ('PA$', 'Q%'):
                    v = s.get(var)
                    if isinstance(v, bytes) and scan(v, markers):
                        res.fail('disclosed.%s.variable' % cls, '%s\n%s = %r' % (where, var, v))
                if not s.impl.program.protected and not dropped:
                    # early, specific signal; the disclosure probes that follow show the effect
                    dropped = True
                    res.fail('protection-dropped.%s' % cls, where)
                s.execute('CLS')
            # 3. only SAVE ,P works, and gives the original back
            o = s.execute('SAVE "OUT",P')
            if o.kind != 'ok' or o.errors:
                res.fail('save-p.refused', 'SAVE "OUT",P -> %r' % (o,))
            else:
                with open(os.path.join(sb.z, 'OUT.BAS'), 'rb') as f:
                    out = f.read()
                if out != original:
                    res.fail('save-p.differs', 'SAVE ,P gives %d bytes, original %d bytes' % (
                        len(out), len(original)))
            # 4. and the program still runs as its original
            s.execute('CLS')
            o = s.execute('RUN')
            if (o.kind, o.output) != ref_out:
                res.fail('run.differs', 'protected RUN -> %r %r\noriginal -> %r' % (
                    o.kind, o.output, ref_out))
            # 5. replacement histories: the protected program is formally gone (NEW, LOAD / CHAIN /
            #    RUN of a shorter program, lines typed over it) - nothing it contained may come
            #    back through any channel that exposes program memory
            pfiles = []
            for hno in range(2):
                pre = rng.choice(['as-is', 'reload', 'reload-run', 'reload-goto'])
                repl = rng.choice(['NEW', 'CLEAR:NEW', 'LOAD "H.BAS"', 'LOAD "HB"', 'LOAD "HP"',
                                   'CHAIN "H.BAS"', 'RUN "H.BAS"', 'RUN "HB"', 'NEW+type'])
                if hno == 0 and pre != 'as-is' and rng.random() < 0.5:
                    pre = 'as-is'           # the pointer is wherever the final RUN left it
                res.label('history.%s.%s' % (pre, repl.split()[0]))
                prep = []
                if pre != 'as-is':
                    prep.append('LOAD "PROT"')
                if pre == 'reload-run':
                    prep.append('RUN')
                if pre == 'reload-goto':
                    prep.append('GOTO %d' % rng.choice(linenos))
                prep += ['NEW', '10 X=1', '20 END'] if repl == 'NEW+type' else [repl]
                prep.append('CLS')
                tag = 'R%d' % hno
                observe = ['DEF SEG', 'LIST', 'SAVE "%sA",A' % tag, 'SAVE "%sB"' % tag,
                           'SAVE "%sP",P' % tag,
                           'BSAVE "%sM",%d,%d' % (tag, max(0, code_start - 16), code_size + 300)]
                pfiles.append(tag + 'P.BAS')
                for a_ in range(code_start - 8, code_start + code_size + 16, 200):
                    observe.append('PA$="":FOR I=%d TO %d:PA$=PA$+CHR$(PEEK(I)):NEXT' % (a_, a_ + 207))
                blob = b''
                for i_, st_ in enumerate(prep + observe):
                    o = s.execute(st_)
                    if o.kind == 'escaped':
                        res.fail('escaped.%s@%s' % (o.exc, o.frame), 'history %s / %s: %r\n%s' % (
                            pre, repl, st_, o.tb))
                        return res
                    if i_ >= len(prep):
                        blob += o.output + b'\n'.join(s.chars())
                        v = s.get('PA$')
                        if isinstance(v, bytes):
                            blob += v
                now = list_files(sb.z)
                for name, data in now.items():
                    if before.get(name) != data:
                        blob += data
                before = now
                res.nt(True)
                if scan(blob, markers):
                    res.fail('disclosed.after-replacement.%s' % repl.split()[0].rstrip(':'),
                             'history %s, then %r: the old program still shows %r\n%s' % (
                                 pre, repl, scan(blob, markers), text))
        # 6. what the replacement sessions saved in protected form, opened in an ordinary session
        with harness.Sess(sandbox=sb) as s2:
            for name in pfiles:
                if not os.path.exists(os.path.join(sb.z, name)):
                    continue
                s2.execute('NEW\nLOAD "%s"\nSAVE "X%sA",A\nSAVE "X%sB"' % (
                    name[:-4], name[:2], name[:2]))
                s2.execute('CLS')
                o = s2.execute('LIST')
                blob = o.output
                for suffix in ('A', 'B'):
                    fn = os.path.join(sb.z, 'X%s%s.BAS' % (name[:2], suffix))
                    if os.path.exists(fn):
                        with open(fn, 'rb') as f:
                            blob += f.read()
                if scan(blob, markers):
                    res.fail('disclosed.after-replacement.SAVE-P',
                             '%s saved after the replacement holds %r\n%s' % (
                                 name, scan(blob, markers), text))
    finally:
        sb.close()
    return res


# ---------------------------------------------------------------------------------------------

def strat():
    return st.fixed_dictionaries({
        'seed': st.integers(0, 2 ** 30),
        'nlines': st.integers(4, 10),
        'state': st.sampled_from(['loaded', 'loaded', 'ran', 'stopped', 'handler', 'syntax']),
        'entry': st.sampled_from(['LOAD', 'LOAD', 'RUN', 'CHAIN']),
        'nprobes': st.integers(12, 30),
    })


def units(tier):
    return [
        Unit('probes', 'hyp', shards=16, examples={'quick': 80, 'thorough': 1500}, strategy=strat),
    ]


REGRESSIONS = [
    {'seed': 1, 'nlines': 4, 'state': 'loaded', 'entry': 'LOAD', 'nprobes': 30},
    {'seed': 2, 'nlines': 6, 'state': 'handler', 'entry': 'RUN', 'nprobes': 30},
    {'seed': 3, 'nlines': 5, 'state': 'syntax', 'entry': 'LOAD', 'nprobes': 20},
    {'seed': 4, 'nlines': 5, 'state': 'stopped', 'entry': 'CHAIN', 'nprobes': 30},
]

KILLS = [
    "program.py list_lines: protected test removed -> not-refused.LIST, not-refused.LLIST, "
    "disclosed.LIST.console/screen/file, disclosed.LLIST.printer",
    "program.py save: protected test removed -> not-refused.SAVE, disclosed.SAVE.file",
    "program.py edit: protected test removed -> not-refused.EDIT, disclosed.EDIT.console/screen, "
    "disclosed.EDIT-after-syntax-error.console",
    "program.py store_line: protected test removed -> not-refused.LINE, not-refused.MERGE, "
    "save-p.differs, run.differs",
    "machine.py peek_: guard removed -> not-refused.PEEK",
    "machine.py peek_: guard 'protected and run_mode' (inverted) -> not-refused.PEEK",
    "machine.py bsave_: guard removed -> not-refused.BSAVE, disclosed.BSAVE.file",
    "machine.py bload_: guard removed (the seeded change) -> protection-dropped.BYPASS, "
    "disclosed.BYPASS.console/screen, not-refused.LIST/SAVE/PEEK/EDIT after BLOAD \"FLAG0.BIN\"",
    "machine.py bload_: guard only when no offset is given -> protection-dropped.BYPASS (BLOAD f,addr)",
    "machine.py poke_: guard removed -> protection-dropped.BYPASS, disclosed.BYPASS.console/screen",
    "machine.py poke_: guard only while DEF SEG is the data segment -> protection-dropped.BYPASS "
    "(DEF SEG=ds-k:POKE flag+16k,0), not-refused.* in the probes that follow",
    "program.py erase(): truncate before the end marker is written (wave-4 seed; needs the program "
    "pointer beyond the start, then NEW / LOAD of a shorter program, then a tokenised or ,P SAVE) "
    "-> disclosed.after-replacement.NEW/CLEAR:NEW/LOAD/RUN/NEW+type, "
    "disclosed.after-replacement.SAVE-P",
    "implementation.py chain_: 'protected and merge' test removed -> not-refused.CHAIN-MERGE "
    "(CHAIN MERGE of a file without lines; with lines store_line still refuses), "
    "disclosed.CHAIN-MERGE.console",
]
