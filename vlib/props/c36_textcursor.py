"""
C36 - the text cursor and the screen content stay consistent.

Stateful: a generated list of operations (PRINT of one or more string items with or without a
trailing ';', LOCATE with valid/invalid/omitted arguments, CLS [0|2], VIEW PRINT a TO b / reset,
WIDTH 40/80, SCREEN m, KEY ON/OFF) is run against a real session and against a reference model of
the text screen written from the property statement and the manual. After every operation the
whole character grid (Session.get_chars), CSRLIN, POS(0) and a few SCREEN(r,c) probes are compared.

The reference model is *non-deterministic where statement and manual are silent*: it carries a
small set of candidate states and keeps those that agree with what is observed; an empty set is a
violation. The forks are exactly:
  * a line filled to the last column: the cursor may stay "pending" on that row (deferred wrap, the
    GW-BASIC behaviour) or already stand on column 1 of the next row (eager wrap, scrolling if needed);
  * an item that does not fit in the rest of the line and is longer than a whole line, or contains a
    CR/LF: it may or may not start on a fresh line (an item that does fit in a whole line MUST start
    on the next line - documented PRINT rule);
  * SCREEN m / WIDTH w that name the current mode/width: nothing happens or the mode is re-initialised;
  * cursor after CLS: home of the screen or home of the VIEW PRINT window.
Operations the model does not predict (control characters other than CR/LF, CR+LF pairs, output
while the cursor is on row 25) are executed, the invariants are checked (cursor inside the screen and
inside the window, rows outside the window unchanged, SCREEN() == get_chars) and the model is
re-synchronised from the observed state.
"""
import logging

from hypothesis import strategies as st

from vlib.core import Result, Unit
from vlib import harness

ID = 'C36'
LEVEL = 'exploration'
TECHNIQUE = ("Hypothesis operation lists against a non-deterministic reference model of the text "
             "screen (candidate-state set filtered by observation), state-relative string lengths "
             "and LOCATE targets; directed boundary regressions")
RULE = ("Operation lists of 4..40 steps on video cga/ega/vga starting from a cleared 80-column "
        "screen: PRINT of 1-3 string items whose lengths are chosen relative to the space left on "
        "the line (exact fill, one short, one over, longer than a line) or absolutely (0..200), "
        "LOCATE to cells chosen relative to the window edges and the right margin (legal, illegal, "
        "omitted), VIEW PRINT windows (mostly 1-4 rows), CLS, WIDTH, SCREEN, KEY. A case is "
        "non-trivial when, in the surviving model state, output crossed the right margin or the "
        "bottom of the scroll window at least once; distinct = distinct operation list.")
ASSUMPTIONS = [
    "overflow position: text that ends exactly in the last column leaves the wrap pending; the "
    "newline that ends a PRINT statement then advances two rows (empty row; recorded GW-BASIC run "
    "tests/basic/gwbasic/PRINT_overflow_CR) - asserted. With a trailing ';' the pending wrap "
    "(PRINT_bottom_right_no_scroll) and an already executed wrap (what the code does on a row that "
    "is flagged as continued) are both accepted: they differ only in when the bottom row scrolls. "
    "A CR/LF inside a string right after a full line may advance one or two rows (no recording)",
    "an item longer than the line, or containing CR/LF, may or may not be moved to a fresh line first",
    "LOCATE to row 25 without VIEW PRINT is accepted as legal or illegal (manual silent); "
    "output while the cursor is on row 25 is only checked against the invariants",
    "SCREEN(r,c) outside an active VIEW PRINT window, or on row 25 with KEY ON, may raise Illegal "
    "function call (manual) or return the character (statement)",
    "LOCATE with an omitted coordinate while a full line is pending may use either the reported or "
    "the physical coordinate",
    "control characters other than CR and LF, and CR immediately followed by LF, are not modelled "
    "(invariants only); codepage 437 only, active page = visible page = 0",
    "cursor-movement characters CHR$(11), CHR$(28)-CHR$(31): the manual says they move the cursor "
    "(home / one column or row) and is silent about the screen edges, so only the certain part is "
    "asserted: a PRINT of nothing but these characters (and BEL) ending in ';' changes no character "
    "cell anywhere on the screen and leaves the cursor inside the screen and the window",
    "KEY ON bar text is taken from the screen (only 'row 25 blank after KEY OFF' is predicted)",
]

logging.disable(logging.WARNING)

H = 25
MODE_WIDTH = {1: 40, 2: 80, 7: 40, 8: 80, 9: 80}
# WIDTH 40 in SCREEN 9: the manual says SCREEN 7, the code goes to SCREEN 1 - the mode number is
# then unknown to the model (None); only the width matters for this property
WIDTH_SWITCH = {(1, 80): 2, (2, 40): 1, (7, 80): 8, (8, 40): 7, (9, 40): None, (None, 80): None}
MAXC = 24
MOVE_ONLY = (7, 11, 28, 29, 30, 31)


# ---------------------------------------------------------------------------------------------
# reference model

class Cand(object):
    """One candidate state of the reference text screen."""

    __slots__ = ('g', 'r', 'c', 'p', 'W', 'top', 'bot', 'act', 'ev', 'anycur', 'any25')

    def __init__(self, W):
        self.W = W
        self.g = [bytearray(b' ' * W) for _ in range(H)]
        self.r, self.c, self.p = 1, 1, False
        self.top, self.bot, self.act = 1, H - 1, False
        self.ev = ()
        self.anycur = False       # cursor not predicted for this step (any cell inside the window)
        self.any25 = False        # row 25 not predicted for this step

    def copy(self):
        o = Cand.__new__(Cand)
        o.W = self.W
        o.g = [bytearray(row) for row in self.g]
        o.r, o.c, o.p = self.r, self.c, self.p
        o.top, o.bot, o.act = self.top, self.bot, self.act
        o.ev = self.ev
        o.anycur, o.any25 = self.anycur, self.any25
        return o

    def key(self):
        return (b''.join(bytes(x) for x in self.g), self.r, self.c, self.p, self.W, self.top,
                self.bot, self.act, self.anycur, self.any25)

    def mark(self, what):
        if what not in self.ev:
            self.ev = self.ev + (what,)

    def reported(self):
        """Acceptable (CSRLIN, POS) observations."""
        if not self.p:
            return {(self.r, self.c)}
        return {(self.r + 1 if self.r < self.bot else self.r, 1), (self.r, self.W)}

    # -- primitive movements
    def scroll(self):
        t, b = self.top, self.bot
        self.g[t - 1:b] = self.g[t:b] + [bytearray(b' ' * self.W)]
        self.mark('scroll')
        if self.act:
            self.mark('scroll-in-window')

    def advance_row(self):
        if self.r >= self.bot:
            self.scroll()
            self.r = self.bot
        else:
            self.r += 1
        self.c, self.p = 1, False

    def put_char(self, ch):
        if self.p:
            self.advance_row()
            self.mark('wrap')
        self.g[self.r - 1][self.c - 1] = ch
        if self.c < self.W:
            self.c += 1
        else:
            self.p = True

    def reset_mode(self, W, keyon):
        self.W = W
        self.g = [bytearray(b' ' * W) for _ in range(H)]
        self.any25 = bool(keyon)
        self.r, self.c, self.p = 1, 1, False
        self.top, self.bot, self.act = 1, H - 1, False


def dedupe(cands):
    seen, out = set(), []
    for cd in cands:
        k = cd.key()
        if k not in seen:
            seen.add(k)
            out.append(cd)
    return out


def newline_variants(cd, statement_end=False):
    """A newline. With the cursor in the overflow position (line filled to the last column, wrap
    pending) the newline that ends a PRINT statement first completes the full row and then moves
    one row further: the next output starts two rows down, leaving an empty row (GW-BASIC rule,
    pinned by the recorded GW-BASIC run tests/basic/gwbasic/PRINT_overflow_CR). For a CR/LF
    *inside* a string no recording exists: one or two rows are accepted."""
    if cd.p:
        b = cd.copy()
        b.advance_row()
        b.mark('wrap')
        b.advance_row()
        if statement_end:
            b.mark('exact-fit-statement-newline')
            return [b]
        a = cd.copy()
        a.advance_row()                 # the embedded newline only resolves the pending wrap
        b.mark('full-line-embedded-newline')
        a.mark('full-line-embedded-newline')
        return [a, b]
    cd.advance_row()
    return [cd]


def write_item(cd, s):
    """Apply one PRINT item (bytes: printable + CR/LF) -> list of candidates."""
    if not s:
        return [cd]
    first = len(s)
    for i, ch in enumerate(s):
        if ch in (10, 13):
            first = i
            break
    has_nl = first < len(s)
    starts = [cd]
    if first >= 1 and cd.c != 1 and cd.c - 1 + first > cd.W:
        b = cd.copy()
        b.advance_row()
        if first <= cd.W and not has_nl:
            b.mark('fit-break')
            starts = [b]
        else:
            b.mark('long-item-fork')
            cd.mark('long-item-fork')
            starts = [cd, b]
    live = starts
    for ch in s:
        if ch in (10, 13):
            nxt = []
            for x in live:
                nxt.extend(newline_variants(x))
            live = dedupe(nxt)
        else:
            for x in live:
                x.put_char(ch)
    return live


def finish_print(cands):
    """End of a PRINT statement: a pending full line may already have wrapped (eager)."""
    out = []
    for cd in cands:
        out.append(cd)
        if cd.p:
            cd.mark('exact-fill')
            e = cd.copy()
            e.advance_row()
            e.mark('wrap')
            out.append(e)
    return dedupe(out)


def is_plain(items):
    for s in items:
        prev = None
        for ch in s:
            if ch in (10, 13):
                if prev == 13 and ch == 10:
                    return False
            elif ch < 32 or ch == 127:
                return False
            prev = ch
    return True


# ---------------------------------------------------------------------------------------------
# driving the real session

PROGRAM = b'10 ON ERROR GOTO 40\n30 END\n40 E%=ERR:RESUME 30'


class Driver(object):

    def __init__(self, sess, res):
        self.s = sess
        self.res = res
        self.dead = False
        self.escape_hint = None     # bucket prefix for an escaped exception in a known region
        o = sess.execute(PROGRAM)
        self._ok(o, 'setup')

    def _ok(self, o, what):
        if o.kind == 'budget':
            self.res.inconclusive = True
            self.dead = True
            return False
        if o.kind != 'ok':
            key = 'escaped.%s@%s' % (o.exc, o.frame)
            if self.escape_hint:
                key = '%s.%s' % (self.escape_hint, key)
            self.res.fail(key, '%s: %r\n%s' % (what, o, o.tb))
            self.dead = True
            return False
        return True

    def stmt(self, text):
        """Run one statement as a stored line under a silent error trap -> BASIC error code."""
        o = self.s.execute(b'20 ' + text)
        if not self._ok(o, text):
            return None
        o = self.s.execute(b'RUN')
        if not self._ok(o, text):
            return None
        if o.errors:
            # an error message reached the console although a trap is active
            self.res.fail('harness.untrapped-error', '%r -> %r' % (text, o))
            self.dead = True
            return None
        return int(self.s.get('E%'))

    def print_items(self, items, nl):
        names = [b'A$', b'B$', b'C$']
        for n, it in zip(names, items):
            self.s.set(n, bytes(it))
        text = b'PRINT ' + b';'.join(names[:len(items)]) + (b'' if nl else b';')
        o = self.s.execute(text)
        if not self._ok(o, text):
            return None
        if o.errors:
            self.res.fail('print.error', '%r %r -> %r' % (text, items, o))
            return None
        return 0

    def observe(self):
        grid = [b''.join(row) for row in self.s.s.get_chars()]
        o1 = self.s.evaluate(b'CSRLIN')
        o2 = self.s.evaluate(b'POS(0)')
        if not (self._ok(o1, 'CSRLIN') and self._ok(o2, 'POS')):
            return None
        if o1.errors or o2.errors:
            self.res.fail('query.error', 'CSRLIN/POS raised %r %r' % (o1, o2))
            self.dead = True
            return None
        return grid, int(o1.value), int(o2.value)

    def screen_fn(self, r, c, safe):
        """SCREEN(r,c) -> (err, value)."""
        if safe:
            o = self.s.evaluate(b'SCREEN(%d,%d)' % (r, c))
            if not self._ok(o, 'SCREEN()'):
                return None
            if o.errors:
                return (o.err, None)
            return (0, int(o.value))
        e = self.stmt(b'V%%=SCREEN(%d,%d)' % (r, c))
        if e is None:
            return None
        return (e, int(self.s.get('V%')) if e == 0 else None)


# ---------------------------------------------------------------------------------------------
# op interpretation helpers (state-relative choices)

def pick_len(kind, v, cd):
    """String length for a print item, relative to the space left on the line."""
    W = cd.W
    col = 1 if cd.p else cd.c
    left = W - col + 1 if not cd.p else 0
    if kind == 'abs':
        return max(0, min(255, v))
    if kind == 'left':          # v in -3..3 around the space left on this line
        return max(0, min(255, left + v))
    if kind == 'line':          # v in -2..2 around a whole line
        return max(0, min(255, W + v))
    if kind == 'fit':           # exact fit: ends in the last column of this or a later row
        return max(0, min(255, left + W * (v % 3))) or W
    if kind == 'long':          # more than a line
        return max(0, min(255, W + 1 + (v % (W + 30))))
    return max(0, min(255, v))


def make_text(length, seed, nlpos):
    """Deterministic printable text; CR/LF inserted at the given relative positions."""
    out = bytearray()
    for i in range(length):
        k = (seed + i) % 100
        out.append(33 + k if k < 94 else (32 if k < 97 else 128 + k))
    for pos, code in nlpos:
        if length:
            out[pos % length] = code
    return bytes(out)


def pick_row(kind, v, cd):
    if kind == 'none':
        return None
    if kind == 'in':
        return cd.top + v % (cd.bot - cd.top + 1)
    if kind == 'edge':
        return [cd.top, cd.bot, cd.bot + 1, cd.top - 1, 24, 25, 1, 26, 0][v % 9]
    return v % 29 - 1            # abs: -1..27


def pick_col(kind, v, cd):
    if kind == 'none':
        return None
    if kind == 'in':
        return 1 + v % cd.W
    if kind == 'edge':
        return [1, cd.W, cd.W + 1, 0, cd.W - 1, 2, cd.W - 2, 81, 41][v % 9]
    return v % (cd.W + 4) - 1


# ---------------------------------------------------------------------------------------------
# expected outcomes of one op on one candidate:  list of (error code or None for 'no error', cand)

def outcomes_locate(cd, r, c, keyon):
    W = cd.W
    rows = [r] if r is not None else sorted({cd.r} | ({x[0] for x in cd.reported()} if cd.p else set()))
    cols = [c] if c is not None else ([cd.c] if not cd.p else [W, 1])
    out = []
    for rr in rows:
        for cc in cols:
            col_ok = 1 <= cc <= W
            if cd.act:
                row_ok = cd.top <= rr <= cd.bot
                row_maybe = False
            else:
                row_ok = 1 <= rr <= H - 1
                row_maybe = rr == H
            if col_ok and (row_ok or row_maybe):
                n = cd.copy()
                n.r, n.c, n.p = rr, cc, False
                out.append((0, n))
            if not (col_ok and row_ok):
                out.append((5, cd.copy()))
    return out


def clear_rows(cd, a, b):
    for i in range(a, b + 1):
        cd.g[i - 1] = bytearray(b' ' * cd.W)


def outcomes_cls(cd, arg, keyon, bars):
    outs = []
    full = arg == 0 or (arg is None and not cd.act)
    n = cd.copy()
    if full:
        clear_rows(n, 1, H - 1)
        if not keyon:
            clear_rows(n, H, H)
        elif cd.W in bars:
            n.g[H - 1] = bytearray(bars[cd.W])      # the key bar is redrawn
        else:
            n.any25 = True
    else:
        clear_rows(n, n.top, n.bot)
    for home in {(1, 1), (n.top, 1)}:
        if n.act and not n.top <= home[0] <= n.bot:
            continue
        m = n.copy()
        m.r, m.c, m.p = home[0], home[1], False
        outs.append((0, m))
    return outs


def outcomes_view(cd, a, b):
    if a is None:
        n = cd.copy()
        n.top, n.bot, n.act = 1, H - 1, False
        if n.r == H:
            n.anycur = True
        return [(0, n)]
    if 1 <= a <= b <= H - 1:
        n = cd.copy()
        n.top, n.bot, n.act = a, b, True
        n.anycur = True
        n.p = False
        return [(0, n)]
    if a > b and 1 <= a <= H - 1 and 1 <= b <= H - 1:
        return [(5, cd.copy())]         # a window with top below bottom: GW-BASIC and code say IFC
    return [(5, cd.copy())]


def outcomes_mode(cd, newmode, curmode, neww, keyon):
    """SCREEN/WIDTH: error leaves everything unchanged; success re-initialises (or is a no-op when
    mode and width stay the same)."""
    outs = [('err', cd.copy())]
    n = cd.copy()
    n.reset_mode(neww, keyon)
    outs.append((0, n))
    if (newmode == curmode or newmode is None or curmode is None) and neww == cd.W:
        outs.append((0, cd.copy()))
    return outs


def resync(grid, R, C, like):
    """Candidates consistent with an observed screen (hidden 'pending' state unknown)."""
    W = len(grid[0])
    base = Cand(W)
    base.g = [bytearray(row) for row in grid]
    base.top, base.bot, base.act = like.top, like.bot, like.act
    base.r, base.c = R, C
    out = [base]
    if C == 1 and R != H:
        if R - 1 >= base.top:
            p = base.copy()
            p.r, p.c, p.p = R - 1, W, True
            out.append(p)
        if R == base.bot:
            p = base.copy()
            p.r, p.c, p.p = R, W, True
            out.append(p)
    if C == W and R != H:
        p = base.copy()
        p.p = True
        out.append(p)
    return out


def resync_all(grid, R, C, likes):
    """resync() for every distinct VIEW PRINT state among the given candidates (after a WIDTH/SCREEN
    that named the current mode, 'window kept' and 'window reset' can both still be alive)."""
    out, seen = [], set()
    for like in likes:
        v = (like.top, like.bot, like.act)
        if v not in seen:
            seen.add(v)
            out.extend(resync(grid, R, C, like))
    return out


def matches(cd, grid, R, C):
    if cd.W != len(grid[0]):
        return False
    for i in range(H):
        if i == H - 1 and cd.any25:
            continue
        if bytes(cd.g[i]) != grid[i]:
            return False
    if cd.anycur:
        return True
    return (R, C) in cd.reported()


def first_diff(cd, grid):
    if cd.W != len(grid[0]):
        return 'width %d vs %d' % (cd.W, len(grid[0]))
    for i in range(H):
        if i == H - 1 and cd.any25:
            continue
        if bytes(cd.g[i]) != grid[i]:
            for j in range(cd.W):
                if cd.g[i][j] != grid[i][j]:
                    return 'row %d col %d: model %r screen %r | model row %r | screen row %r' % (
                        i + 1, j + 1, bytes(cd.g[i][j:j + 1]), grid[i][j:j + 1],
                        bytes(cd.g[i]).rstrip(), grid[i].rstrip())
    return None


# ---------------------------------------------------------------------------------------------

def check_case(case):
    res = Result()
    video = case.get('video', 'cga')
    ops = case['ops']
    res.label('video-' + video)
    sess = harness.Sess(video=video)
    try:
        _run(case, ops, sess, res)
    finally:
        sess.close()
    return res


def _run(case, ops, sess, res):
    drv = Driver(sess, res)
    if drv.dead:
        return
    mode, keyon = 0, False
    bars = {}                   # width -> text of the key bar as first seen on row 25
    cands = [Cand(80)]
    obs = drv.observe()
    if obs is None:
        return
    grid, R, C = obs
    if not matches(cands[0], grid, R, C):
        res.fail('harness.initial-screen', 'fresh session is not a blank 80x25 screen at (1,1)')
        return
    nontrivial = False
    prev_fs = fs_now = False    # the previous operation was a PRINT containing CHR$(28)
    for idx, op in enumerate(ops):
        if drv.dead:
            return
        kind = op['op']
        prev_fs, fs_now = fs_now, False
        ref = cands[0]
        before_grid = grid
        loose = False
        desc = kind
        outs = []                   # (expected error, candidate)
        err = 0
        if kind == 'print':
            items = []
            for it in op['items']:
                ln = pick_len(it.get('lk', 'abs'), it.get('lv', 0), ref)
                if 'raw' in it:
                    s = it['raw'].encode('latin-1')
                else:
                    s = make_text(ln, it.get('seed', 0), it.get('nl', []))
                items.append(s)
            nl = bool(op.get('nl'))
            desc = 'PRINT %r%s' % (items, '' if nl else ';')
            fs_now = any(28 in s for s in items)
            plain = is_plain(items)
            if not plain:
                res.label('print-control-chars')
            if any(cd.r == H for cd in cands) or R == H:
                res.label('print-on-row-25')
                plain = False
            if plain:
                for cd in cands:
                    live = [cd.copy()]
                    for x in live:
                        x.ev = ()
                    for s in items:
                        nxt = []
                        for x in live:
                            nxt.extend(write_item(x, s))
                        live = dedupe(nxt)
                    if nl:
                        nxt = []
                        for x in live:
                            nxt.extend(newline_variants(x, statement_end=True))
                        live = dedupe(nxt)
                    live = finish_print(live)
                    outs.extend((0, x) for x in live)
            else:
                loose = True
            err = drv.print_items(items, nl)
        elif kind == 'locate':
            r = pick_row(op.get('rk', 'abs'), op.get('rv', 0), ref)
            c = pick_col(op.get('ck', 'abs'), op.get('cv', 0), ref)
            if r is None and c is None:
                c = pick_col('in', op.get('cv', 0), ref)
            desc = 'LOCATE %s,%s' % ('' if r is None else r, '' if c is None else c)
            for cd in cands:
                outs.extend(outcomes_locate(cd, r, c, keyon))
            text = b'LOCATE ' + (b'' if r is None else b'%d' % r) + (
                b'' if c is None else b',%d' % c)
            err = drv.stmt(text)
        elif kind == 'cls':
            arg = op.get('arg')
            desc = 'CLS %s' % ('' if arg is None else arg)
            for cd in cands:
                outs.extend(outcomes_cls(cd, arg, keyon, bars))
            err = drv.stmt(b'CLS' + (b'' if arg is None else b' %d' % arg))
        elif kind == 'view':
            a, b = op.get('a'), op.get('b')
            if a is not None and op.get('rel'):
                # window chosen relative to the current one: keeps windows small and varied
                a = 1 + a % 24
                b = min(24, a + b % 4)
            desc = 'VIEW PRINT %s' % ('' if a is None else '%d TO %d' % (a, b))
            for cd in cands:
                outs.extend(outcomes_view(cd, a, b))
            err = drv.stmt(b'VIEW PRINT' + (b'' if a is None else b' %d TO %d' % (a, b)))
        elif kind == 'width':
            w = op['w']
            desc = 'WIDTH %d' % w
            newmode = WIDTH_SWITCH.get((mode, w), mode)
            for cd in cands:
                outs.extend(outcomes_mode(cd, newmode, mode, w, keyon))
            if keyon and any(cd.c > w for cd in cands):
                drv.escape_hint = 'modechange.keybar-cursor-beyond-new-width'
            err = drv.stmt(b'WIDTH %d' % w)
            drv.escape_hint = None
            if err == 0:
                mode = newmode
            res.label('mode-op')
        elif kind == 'screen':
            m = op['m']
            desc = 'SCREEN %d' % m
            for cd in cands:
                neww = MODE_WIDTH.get(m, cd.W)
                outs.extend(outcomes_mode(cd, m, mode, neww, keyon))
                if keyon and cd.c > neww:
                    drv.escape_hint = 'modechange.keybar-cursor-beyond-new-width'
            err = drv.stmt(b'SCREEN %d' % m)
            drv.escape_hint = None
            if err == 0:
                mode = m
            res.label('mode-op')
        elif kind == 'key':
            on = bool(op['on'])
            desc = 'KEY %s' % ('ON' if on else 'OFF')
            for cd in cands:
                n = cd.copy()
                if on != keyon:
                    if on:
                        n.any25 = True
                    else:
                        clear_rows(n, H, H)
                outs.append((0, n))
                outs.append(('err', cd.copy()))
            err = drv.stmt(b'KEY ' + (b'ON' if on else b'OFF'))
            if err == 0:
                keyon = on
        else:
            raise ValueError(kind)
        if err is None or drv.dead:
            return
        obs = drv.observe()
        if obs is None:
            return
        grid, R, C = obs
        W = len(grid[0])
        # ---- invariants that always hold
        if not (1 <= R <= H and 1 <= C <= W):
            res.fail('invariant.cursor-outside-screen',
                     'step %d %s: CSRLIN=%d POS=%d width=%d' % (idx, desc, R, C, W))
        if len(grid) != H:
            res.fail('invariant.height', 'step %d %s: %d rows' % (idx, desc, len(grid)))
            return
        if loose:
            # not predicted: invariants only
            res.label('loose-op')
            top, bot = ref.top, ref.bot
            one_view = all((cd.top, cd.bot, cd.act) == (top, bot, ref.act) for cd in cands)
            if not one_view:
                res.label('ambiguous-window')
            if one_view and ref.act and not top <= R <= bot:
                res.fail('invariant.cursor-outside-window',
                         'step %d %s: CSRLIN=%d window %d-%d' % (idx, desc, R, top, bot))
            cursor_on_25 = any(cd.r == H for cd in cands)
            for i in range(1, H + 1):
                if not one_view:
                    break
                if top <= i <= bot or (i == H and cursor_on_25):
                    continue
                if grid[i - 1] != before_grid[i - 1]:
                    res.fail('window.outside-changed',
                             'step %d %s: row %d outside window %d-%d changed: %r -> %r' % (
                                 idx, desc, i, top, bot, before_grid[i - 1].rstrip(),
                                 grid[i - 1].rstrip()))
                    break
            # a PRINT that consists of cursor-movement characters only (VT 11, FS 28, GS 29, RS 30,
            # US 31; BEL 7 makes no mark either) and ends in ';' "moves the cursor" (manual): whatever
            # happens at the edges, it never changes a character cell anywhere on the screen
            if (kind == 'print' and not op.get('nl') and items and any(items)
                    and all(ch in MOVE_ONLY for s in items for ch in s)):
                res.label('move-only-print')
                for i in range(1, H + 1):
                    if grid[i - 1] != before_grid[i - 1]:
                        res.fail('cursor-move.changed-screen',
                                 'step %d %s from cursor %r (window %d-%d): row %d changed: '
                                 '%r -> %r' % (idx, desc, sorted(ref.reported()), top, bot, i,
                                               before_grid[i - 1].rstrip(), grid[i - 1].rstrip()))
                        break
            cands = resync_all(grid, R, C, cands)
        else:
            live = []
            for exp, cd in outs:
                if exp == 'err':
                    if err == 0:
                        continue
                elif exp != err:
                    continue
                if matches(cd, grid, R, C):
                    live.append(cd)
            if live:
                nxt = []
                for cd in live:
                    if cd.any25:
                        cd.g[H - 1] = bytearray(grid[H - 1])
                        cd.any25 = False
                        if keyon and kind in ('key', 'width', 'screen') and err == 0:
                            bars.setdefault(cd.W, bytes(grid[H - 1]))
                    if cd.anycur:
                        if cd.act and not cd.top <= R <= cd.bot:
                            res.fail('invariant.cursor-outside-window',
                                     'step %d %s: CSRLIN=%d window %d-%d' % (
                                         idx, desc, R, cd.top, cd.bot))
                        cd.anycur = False
                        for x in resync(grid, R, C, cd):
                            x.ev = cd.ev
                            nxt.append(x)
                    else:
                        nxt.append(cd)
                cands = dedupe(nxt)
                for e in cands[0].ev:
                    res.label(e)
                    if e in ('exact-fit-statement-newline', 'exact-fill'):
                        res.label(e + ('-graphics' if mode != 0 else '-text'))
                        if cands[0].act:
                            res.label(e + '-in-window')
                        if 'scroll' in cands[0].ev:
                            res.label(e + '-scrolling')
                if any(e in ('wrap', 'scroll') for e in cands[0].ev):
                    nontrivial = True
                if len(cands) > 1:
                    res.label('several-candidates')
                if len(cands) > MAXC:
                    res.label('candidate-overflow')
                    cands = cands[:MAXC]
            else:
                _classify(res, kind, idx, desc, op, outs, err, grid, before_grid, R, C, cands,
                          ref, prev_fs)
                cands = resync_all(grid, R, C, _views_after(outs, err, ref))
            if kind == 'locate':
                res.label('locate-ok' if err == 0 else 'locate-err%d' % err)
            if kind == 'view' and err == 0 and op.get('a') is not None:
                res.label('view-set')
        for cd in cands:
            cd.ev = ()
        # ---- SCREEN(r,c) probes
        ref = cands[0]
        same_view = all((cd.top, cd.bot, cd.act) == (ref.top, ref.bot, ref.act) for cd in cands)
        probes = [(1 + q[0] % 26, 1 + q[1] % (W + 1)) for q in op.get('q', [])]
        if C > 1:
            probes.append((R, C - 1))
        probes.append((R, C))
        for (pr, pc) in probes:
            in_range = 1 <= pr <= H and 1 <= pc <= W
            in_view = in_range and (not ref.act or ref.top <= pr <= ref.bot)
            maybe = in_range and ((ref.act and not in_view) or (pr == H and keyon))
            safe = in_view and not maybe and same_view
            got = drv.screen_fn(pr, pc, safe)
            if got is None:
                return
            e, v = got
            if not same_view:
                continue
            if e not in (0, 5):
                res.fail('screenfn.wrong-error', 'step %d after %s: SCREEN(%d,%d) -> error %d' % (
                    idx, desc, pr, pc, e))
            elif not in_range:
                if e != 5:
                    res.fail('screenfn.out-of-range-accepted',
                             'step %d after %s: SCREEN(%d,%d) = %r, expected Illegal function '
                             'call (width %d)' % (idx, desc, pr, pc, v, W))
                res.label('screenfn-illegal')
            elif e == 5:
                if not maybe:
                    res.fail('screenfn.legal-rejected',
                             'step %d after %s: SCREEN(%d,%d) raised Illegal function call' % (
                                 idx, desc, pr, pc))
            else:
                if v != grid[pr - 1][pc - 1]:
                    res.fail('screenfn.value', 'step %d after %s: SCREEN(%d,%d) = %d but the cell '
                             'shows %d' % (idx, desc, pr, pc, v, grid[pr - 1][pc - 1]))
                res.label('screenfn-ok')
        # the probes must not disturb the screen
        if any(not (1 <= p[0] <= H and 1 <= p[1] <= W) or ref.act or keyon for p in probes):
            obs2 = drv.observe()
            if obs2 is None:
                return
            if obs2 != (grid, R, C):
                res.fail('screenfn.side-effect', 'step %d after %s: SCREEN() probes changed the '
                         'screen or the cursor' % (idx, desc))
                grid, R, C = obs2
                cands = resync_all(grid, R, C, cands)
    res.nt(nontrivial)
    res.label('width-%d-at-end' % len(grid[0]))
    res.label('mode-%s-at-end' % mode)


def _views_after(outs, err, ref):
    """Candidates whose expected error matches what happened (their windows are the possible ones)."""
    hit = [cd for exp, cd in outs if exp == err or (exp == 'err' and err != 0)]
    return hit or [ref]


def _classify(res, kind, idx, desc, op, outs, err, grid, before_grid, R, C, cands, ref,
              prev_fs=False):
    """No candidate explains the observation: choose the bucket."""
    exp_errs = sorted({str(e) for e, _ in outs})
    head = 'step %d %s: error=%d CSRLIN=%d POS=%d; ' % (idx, desc, err, R, C)
    same_err = [cd for e, cd in outs if (e == err or (e == 'err' and err != 0))]
    if kind == 'locate':
        if not same_err:
            if err == 0:
                res.fail('locate.illegal-accepted', head + 'expected Illegal function call')
            else:
                res.fail('locate.legal-rejected', head + 'expected success (%s)' % exp_errs)
            return
        grid_ok = [cd for cd in same_err if matches_grid(cd, grid)]
        if not grid_ok:
            res.fail('locate.screen-changed', head + (first_diff(same_err[0], grid) or ''))
            return
        want = sorted(set().union(*[cd.reported() for cd in grid_ok]))
        if err != 0:
            res.fail('locate.error-moved-cursor', head + 'cursor was %r before' % (
                sorted(set().union(*[cd.reported() for cd in cands]))))
            return
        pending_before = any(cd.p for cd in cands)
        if pending_before and any(w[1] == ref.W for w in want):
            # own bucket: LOCATE to the last column right after a completely filled line
            res.fail('locate.last-column-after-full-line',
                     head + 'expected cursor at %r' % (want,))
        else:
            res.fail('locate.not-at-requested-cell', head + 'expected cursor at %r' % (want,))
        return
    if not same_err:
        res.fail('%s.error' % kind, head + 'expected error in %s' % exp_errs)
        return
    grid_ok = [cd for cd in same_err if matches_grid(cd, grid)]
    if grid_ok:
        want = sorted(set().union(*[cd.reported() for cd in grid_ok]))
        key = '%s.cursor' % kind
        if kind == 'print' and prev_fs:
            key = 'print.after-cursor-right'
        res.fail(key, head + 'screen content as predicted but cursor expected at %r' % (want,))
        return
    if kind == 'print':
        top, bot = ref.top, ref.bot
        for i in range(1, H + 1):
            if not top <= i <= bot and grid[i - 1] != before_grid[i - 1]:
                res.fail('window.outside-changed', head + 'row %d outside window %d-%d changed: '
                         '%r -> %r' % (i, top, bot, before_grid[i - 1].rstrip(),
                                       grid[i - 1].rstrip()))
                return
    key = '%s.screen' % kind
    if kind == 'print' and prev_fs:
        # own bucket: plain output right after a PRINT that contained CHR$(28) (cursor right)
        key = 'print.after-cursor-right'
    res.fail(key, head + (first_diff(same_err[0], grid) or '') + ' (%d model alternatives tried)'
             % len(same_err))


def matches_grid(cd, grid):
    if cd.W != len(grid[0]):
        return False
    for i in range(H):
        if i == H - 1 and cd.any25:
            continue
        if bytes(cd.g[i]) != grid[i]:
            return False
    return True


# ---------------------------------------------------------------------------------------------
# generators

def strat_item():
    nlpos = st.lists(st.tuples(st.integers(0, 300), st.sampled_from([13, 13, 10])), max_size=2)
    sd = st.integers(0, 99)
    rel = st.one_of(
        st.builds(lambda v, s: {'lk': 'left', 'lv': v, 'seed': s}, st.integers(-3, 3), sd),
        st.builds(lambda v, s: {'lk': 'left', 'lv': v, 'seed': s}, st.integers(0, 1), sd),
        st.builds(lambda v, s: {'lk': 'line', 'lv': v, 'seed': s}, st.integers(-2, 2), sd),
        # exact fit: width - column + 1 characters, plus 0-2 whole lines
        st.builds(lambda v, s: {'lk': 'fit', 'lv': v, 'seed': s}, st.integers(0, 2), sd),
        st.builds(lambda v, s: {'lk': 'long', 'lv': v, 'seed': s}, st.integers(0, 120), sd),
        st.builds(lambda v, s: {'lk': 'abs', 'lv': v, 'seed': s},
                  st.one_of(st.integers(0, 12), st.integers(0, 200)), sd),
        st.builds(lambda v, s, nl: {'lk': 'abs', 'lv': v, 'seed': s, 'nl': [list(x) for x in nl]},
                  st.integers(1, 200), sd, nlpos),
        st.builds(lambda v, s, nl: {'lk': 'left', 'lv': v, 'seed': s,
                                    'nl': [list(x) for x in nl]},
                  st.integers(0, 5), sd, nlpos),
        # several short lines: makes the window scroll
        st.builds(lambda n, s: {'lk': 'abs', 'lv': 3 * n, 'seed': s,
                                'nl': [[3 * i + 2, 13] for i in range(n)]},
                  st.integers(1, 6), sd),
    )
    ctrl = st.text(alphabet=st.sampled_from(
        [chr(c) for c in (7, 8, 9, 10, 11, 12, 13, 28, 29, 30, 31, 1, 0, 127)] + list('abcXYZ 019')),
        min_size=1, max_size=30)
    raw = st.builds(lambda t: {'raw': t}, ctrl)
    # cursor-movement characters only (content must stay untouched, see 'move-only-print')
    move = st.builds(lambda t: {'raw': t}, st.text(
        alphabet=st.sampled_from([chr(c) for c in (31, 31, 28, 28, 29, 30, 11, 7)]),
        min_size=1, max_size=4))
    return st.sampled_from([0] * 11 + [1, 2]).flatmap(lambda k: (rel, raw, move)[k])


def strat_probe():
    return st.lists(st.tuples(st.integers(0, 25), st.integers(0, 80)).map(list), max_size=2)


def strat_op(mode_ops=True):
    pr = st.builds(lambda items, nl, q: {'op': 'print', 'items': items, 'nl': nl, 'q': q},
                   st.lists(strat_item(), min_size=0, max_size=3), st.booleans(), strat_probe())
    kinds = st.sampled_from(['in', 'in', 'edge', 'edge', 'edge', 'abs', 'none'])
    loc = st.builds(lambda rk, rv, ck, cv, q: {'op': 'locate', 'rk': rk, 'rv': rv, 'ck': ck,
                                               'cv': cv, 'q': q},
                    kinds, st.integers(0, 40), kinds, st.integers(0, 90), strat_probe())
    cls = st.builds(lambda a: {'op': 'cls', 'arg': a}, st.sampled_from([None, None, 0, 2]))
    view = st.one_of(
        st.builds(lambda a, b: {'op': 'view', 'a': a, 'b': b, 'rel': True},
                  st.integers(0, 23), st.integers(0, 3)),
        st.builds(lambda a, b: {'op': 'view', 'a': a, 'b': b, 'rel': True},
                  st.integers(0, 23), st.integers(0, 1)),
        st.builds(lambda a, b: {'op': 'view', 'a': a, 'b': b}, st.integers(0, 26),
                  st.integers(0, 26)),
        # boundary windows: bottom row 24/25/26, top row 0/1/25
        st.builds(lambda a, b: {'op': 'view', 'a': a, 'b': b}, st.integers(1, 24),
                  st.sampled_from([24, 25, 25, 26, 0])),
        st.builds(lambda a, b: {'op': 'view', 'a': a, 'b': b}, st.sampled_from([0, 1, 25]),
                  st.integers(1, 25)),
        st.just({'op': 'view', 'a': None, 'b': None}),
    )
    width = st.builds(lambda w: {'op': 'width', 'w': w}, st.sampled_from([40, 80]))
    screen = st.builds(lambda m: {'op': 'screen', 'm': m}, st.sampled_from([0, 0, 1, 2, 7, 8, 9]))
    key = st.builds(lambda on: {'op': 'key', 'on': on}, st.booleans())
    table = {'pr': pr, 'loc': loc, 'cls': cls, 'view': view, 'key': key, 'width': width,
             'screen': screen}
    slots = ['pr'] * 24 + ['loc'] * 9 + ['cls'] * 3 + ['view'] * 4 + ['key']
    if mode_ops:
        slots += ['width', 'screen']
    # one_of() drops repeated branches, so weights go through sampled_from + flatmap
    return st.sampled_from(slots).flatmap(lambda k: table[k])


def strat_case():
    """Optional mode prefix (graphics mode / 40 columns / key bar), then a history."""
    prefix = st.sampled_from([
        [], [], [], [{'op': 'width', 'w': 40}], [{'op': 'screen', 'm': 1}],
        [{'op': 'screen', 'm': 2}], [{'op': 'key', 'on': True}],
        [{'op': 'screen', 'm': 9}], [{'op': 'screen', 'm': 7}, {'op': 'key', 'on': True}],
    ])
    return st.builds(lambda v, pre, ops: {'video': v, 'ops': pre + ops},
                     st.sampled_from(['cga', 'cga', 'ega', 'vga']), prefix,
                     st.lists(strat_op(), min_size=8, max_size=36))


def strat_window_case():
    """Small VIEW PRINT window (or the bottom of the screen) first, then output and LOCATEs only:
    scrolling inside a window."""
    def build(v, w40, a, h, usewin, ops):
        pre = [{'op': 'width', 'w': 40}] if w40 else []
        if usewin:
            pre.append({'op': 'view', 'a': a, 'b': min(24, a + h)})
        else:
            pre.append({'op': 'locate', 'rk': 'abs', 'rv': 22 + a % 3, 'ck': 'in', 'cv': a * 7})
        return {'video': v, 'ops': pre + ops}
    return st.builds(build, st.sampled_from(['cga', 'ega', 'vga']), st.booleans(),
                     st.integers(1, 24), st.integers(0, 3), st.sampled_from([True, True, False]),
                     st.lists(strat_op(mode_ops=False), min_size=8, max_size=36))


def units(tier):
    return [
        Unit('histories', 'hyp', shards=16, examples={'quick': 35, 'thorough': 2500},
             strategy=strat_case),
        Unit('window-histories', 'hyp', shards=16, examples={'quick': 35, 'thorough': 2000},
             strategy=strat_window_case),
    ]


def _p(raw, nl=False):
    return {'op': 'print', 'items': [{'raw': raw}], 'nl': nl}


REGRESSIONS = [
    # fixed 7fd0d51c: LOCATE to the last column right after a completely filled line left
    # CSRLIN/POS at (r+1, 1)
    {'video': 'cga', 'ops': [_p('x' * 80), {'op': 'locate', 'rk': 'abs', 'rv': 6, 'ck': 'abs',
                                            'cv': 81}]},
    {'video': 'cga', 'ops': [_p('x' * 80), {'op': 'locate', 'rk': 'abs', 'rv': 4, 'ck': 'none',
                                            'cv': 0}]},
    # fixed 9fc6683d: KEY ON, cursor right of column 40, WIDTH 40 in text mode: IndexError escaped
    # (the graphics-mode variant below is harmless: no character-width lookup there)
    {'video': 'cga', 'ops': [{'op': 'key', 'on': True},
                             {'op': 'locate', 'rk': 'abs', 'rv': 2, 'ck': 'abs', 'cv': 51},
                             {'op': 'width', 'w': 40}]},
    {'video': 'ega', 'ops': [{'op': 'key', 'on': True},
                             {'op': 'locate', 'rk': 'abs', 'rv': 2, 'ck': 'abs', 'cv': 51},
                             {'op': 'screen', 'm': 7}]},
    # item that does not fit starts on the next line and scrolls
    {'video': 'cga', 'ops': [{'op': 'locate', 'rk': 'abs', 'rv': 25, 'ck': 'abs', 'cv': 81},
                             _p('ab')]},
    # exact fit + statement newline: empty row, next output two rows down (80 and 40 columns, split
    # over two statements, 160 characters, bare PRINT afterwards, bottom of a VIEW PRINT window)
    {'video': 'cga', 'ops': [_p('x' * 80, True), _p('y', True), _p('p' * 50), _p('q' * 30, True),
                             _p('r', True), _p('w' * 160, True), _p('z', True), _p('v' * 80),
                             {'op': 'print', 'items': [], 'nl': True}, _p('u', True)]},
    {'video': 'cga', 'ops': [_p('top'), {'op': 'locate', 'rk': 'abs', 'rv': 13, 'ck': 'abs', 'cv': 2},
                             _p('below'), {'op': 'view', 'a': 5, 'b': 10},
                             {'op': 'locate', 'rk': 'abs', 'rv': 9, 'ck': 'abs', 'cv': 2},
                             _p('k', True),
                             {'op': 'locate', 'rk': 'abs', 'rv': 11, 'ck': 'abs', 'cv': 2},
                             _p('v' * 80, True), _p('after', True)]},
    {'video': 'ega', 'ops': [{'op': 'screen', 'm': 1}, _p('m' * 40, True), _p('n', True),
                             {'op': 'locate', 'rk': 'abs', 'rv': 5, 'ck': 'abs', 'cv': 31},
                             _p('0123456789A', True), _p('o', True)]},
    # exact fill followed by newline
    {'video': 'cga', 'ops': [_p('y' * 80, True), _p('z', True)]},
    # scrolling inside a two-row window leaves the other rows alone
    {'video': 'cga', 'ops': [_p('top', True), {'op': 'view', 'a': 5, 'b': 6},
                             _p('a', True), _p('b', True), _p('c', True), _p('d' * 90, True)]},
    # OPEN: cursor right (CHR$(28)) from the overflow position leaves the overflow flag set: the
    # cursor is reported at (2,1) but the next character lands in column 2
    {'video': 'cga', 'ops': [{'op': 'width', 'w': 40}, _p('x' * 40 + '\x1c'), _p('abc')]},
    # cursor-down on the bottom row of the window / cursor-right in its last column must not scroll
    {'video': 'cga', 'ops': [_p('top line', True), {'op': 'locate', 'rk': 'abs', 'rv': 25, 'ck': 'abs',
                                                    'cv': 6}, _p('\x1f'),
                             {'op': 'locate', 'rk': 'abs', 'rv': 25, 'ck': 'abs', 'cv': 81},
                             _p('\x1c'), {'op': 'view', 'a': 3, 'b': 5},
                             _p('in window', True), {'op': 'locate', 'rk': 'abs', 'rv': 6, 'ck': 'abs',
                                                     'cv': 3}, _p('\x1f\x1f'), _p('\x0b\x1e\x1d')]},
    # model regression: WIDTH 80 on an 80-column blank screen keeps 'window kept' and 'window
    # reset' alive; an unmodelled PRINT (BEL) in between must not collapse that to the wrong one
    {'video': 'cga', 'ops': [{'op': 'view', 'a': 1, 'b': 13}, {'op': 'cls', 'arg': 2},
                             {'op': 'width', 'w': 80}, _p('ab\x07cd', True),
                             {'op': 'locate', 'rk': 'abs', 'rv': 25, 'ck': 'abs', 'cv': 79,
                              'q': [[15, 76]]}, _p('x', True)]},
    # illegal LOCATE / VIEW PRINT leave the cursor alone
    {'video': 'vga', 'ops': [_p('abc'), {'op': 'locate', 'rk': 'abs', 'rv': 27, 'ck': 'abs',
                                         'cv': 3},
                             {'op': 'view', 'a': 5, 'b': 3}, {'op': 'view', 'a': 0, 'b': 3},
                             {'op': 'view', 'a': 3, 'b': 25}]},
    # graphics mode, 40 columns
    {'video': 'ega', 'ops': [{'op': 'screen', 'm': 7}, _p('q' * 45), {'op': 'key', 'on': True},
                             {'op': 'cls', 'arg': None}, {'op': 'width', 'w': 80}, _p('r' * 81)]},
    # fixed 670b1bda (found by the thorough tier): LOCATE on row 25, VIEW PRINT 24 TO 24, then a
    # carriage return stepped onto row 25 and wrote outside the window
    {'video': 'vga', 'ops': [{'op': 'print', 'items': [{'lk': 'left', 'lv': 2, 'seed': 71, 'nl': [[150, 13], [243, 10]]}, {'lk': 'abs', 'lv': 12, 'seed': 21}, {'raw': '\x1d'}], 'nl': False, 'q': []}, {'op': 'print', 'items': [{'lk': 'fit', 'lv': 0, 'seed': 44}, {'lk': 'long', 'lv': 32, 'seed': 7}], 'nl': False, 'q': [[4, 54], [0, 15]]}, {'op': 'locate', 'rk': 'edge', 'rv': 32, 'ck': 'abs', 'cv': 61, 'q': []}, {'op': 'view', 'a': 23, 'b': 0, 'rel': True}, {'op': 'print', 'items': [{'raw': '\rX\x07\x00\x00'}, {'lk': 'abs', 'lv': 159, 'seed': 3}, {'lk': 'left', 'lv': 4, 'seed': 27, 'nl': [[100, 10]]}], 'nl': True, 'q': []}]},
]

KILLS = [
    "textscreen.scroll: scroll_up(from_row, bottom-1) -> print.screen",
    "textscreen._wrap_around_and_scroll_as_needed: 'row > bottom' -> 'row >= bottom' -> print.screen",
    "textscreen.scroll: from_row = top+1 -> print.screen",
    "textscreen.write_char: wrap at width-1 -> print.cursor / print.screen",
    "textscreen.locate_: clamp row/col instead of range_check -> locate.illegal-accepted",
    "textscreen.locate_: no VIEW PRINT row check -> locate.illegal-accepted",
    "textscreen.locate_: column 0 accepted -> locate.illegal-accepted",
    "textscreen.csrlin_: no +1 in overflow position -> print.cursor",
    "textscreen.pos_: overflow position reports column 2 -> print.cursor",
    "textscreen.view_print_: cursor not moved into the window -> invariant.cursor-outside-window",
    "textscreen.view_print_: bottom row 25 accepted -> view.error",
    "textscreen.clear_view: clears top..bottom-1 -> cls.screen",
    "textscreen.clear: set_pos(2,1) -> cls.cursor",
    "textscreen.screen_fn_: reads column+1 -> screenfn.value",
    "ScrollArea.init_mode: window kept over WIDTH/SCREEN -> print.screen / screenfn.legal-rejected",
    "buffers.scroll_up: deletes the wrong text row / inserts the blank row one too high -> print.screen",
    "formatter.format: end-of-statement newline issued before the overflow check (second line feed "
    "lost after a line that ends in the last column) -> print.screen / print.cursor",
    "console.write: CHR$(11)/CHR$(28)-CHR$(31) handlers call set_pos without scroll_ok=False (cursor "
    "down on the bottom row of the window scrolls it) -> cursor-move.changed-screen",
    "devicebase.SCRNFile.write: fit rule '>' -> '>=' -> print.screen; fit rule removed -> print.screen",
]
