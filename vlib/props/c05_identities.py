"""
C05 - arithmetic identities hold for every value and type pairing.

Oracle: metamorphic relations between results (x+y vs y+x, x*y vs y*x, mixed-type operation vs the
same operation on operands promoted by the reference encoder) compared bit for bit, and exact
reference values (vlib/mbf.py Fractions) for x+0, x*1, x/1, x-x, -(-x), ABS, SGN.
"""
import random
from fractions import Fraction

from hypothesis import strategies as st

from vlib.core import Result, Unit
from vlib import mbf
from vlib import mbfnum as M

ID = 'C05'
LEVEL = 'exploration'
RULE = ("Pairs (x, y) over all 9 pairings of Integer/Single/Double: x and y drawn independently from "
        "the C03 pools (random patterns, exponent sweeps around the binary point, int16 ends, "
        "extremes, dirty zeros), or y related to x (same value in the other type, adjacent value, "
        "negation, C04 pair classes for equal types); all 65536 integers as x against a rotating y; "
        "each case evaluates every identity of the statement (about 40 operations) through the "
        "values API; a Hypothesis sample goes through Session.evaluate and a stored program. "
        "Non-trivial: operand types differ, or exponents differ, or x has an extreme exponent "
        "(<=3 or >=253) or is a dirty zero; distinct = distinct (x, y, route).")
ASSUMPTIONS = [
    "integer (+,-,*) integer may come back as an integral Single instead of an Integer: that pairing "
    "is compared by value only; every other pairing must return the wider operand type",
    "identities whose exact result is zero are compared by value (any zero encoding accepted); "
    "commutativity is compared bit for bit including zero encodings and error outcomes",
    "ABS/negation of an Integer may return a Single (documented promotion); compared by value",
    "x*1 = x for doubles below 2^-96 is reported under mul.double.underflow-band (root cause "
    "shared with C04, fixed in /repo by 9479e0ab; key and regression case stay)",
    "the stored-program route checks commutativity and the neutral-element identities only",
]
TECHNIQUE = "metamorphic relations + exact rational reference over generated operand pairs; exhaustive over int16 for the unary identities"

ONE = {2: b'\x01\x00', 4: b'\x00\x00\x00\x81', 8: b'\0\0\0\0\0\0\x00\x81'}
BAND_HI = Fraction(2) ** -96
OPN = {'+': 'add', '-': 'sub', '*': 'mul', '/': 'div'}


def unop_observe(name, a, route):
    """NEG2 = -(-x), ABS, SGN."""
    n = len(a)
    rn = max(n, 4)
    if route == 'api':
        V = M.api().V
        if name == 'NEG2':
            o = M.call1(V.neg, a, wrap=False)
            if o[0] != 'ok':
                return o
            return M.call1(V.neg, o[1], wrap=False)
        if name == 'ABS':
            return M.call1(V.abs_, a)
        return M.call1(V.sgn_, a)
    arg = M.CV[n] + b'(A$)'
    if name == 'SGN':
        o = M.run_expr(b'SGN(' + arg + b')', {'A$': a}, route, 'int')
        if o[0] == 'ok':
            return ('ok', mbf.int16_bytes(o[1]))
        return o
    expr = M.MK[rn] + (b'(-(-' + arg + b'))' if name == 'NEG2' else b'(ABS(' + arg + b'))')
    o = M.run_expr(expr, {'A$': a}, route)
    if o[0] in ('ok', 'soft'):
        return o[:-1] + (bytes(o[-1]),)
    return o


class _Stop(Exception):
    pass


def judge(res, x, y, route):
    nx, ny = len(x), len(y)
    nr = max(nx, ny, 4)
    both_int = nx == 2 and ny == 2
    vx, vy = mbf.decode(x), mbf.decode(y)
    tag = '%s:%s %s:%s [%s]' % (M.TNAME[nx], M.hx(x), M.TNAME[ny], M.hx(y), route)

    def obs(op, a, b):
        o = M.binop_observe(op, a, b, route)
        if o[0] == 'budget':
            res.inconclusive = True
            raise _Stop()
        if o[0] == 'escaped':
            res.fail(o[1], '%s %s %s [%s]' % (M.hx(a), op, M.hx(b), route))
            raise _Stop()
        if o[0] == 'err-untrapped':
            res.fail('untrapped.' + OPN[op], '%s %s %s: error %d not trapped' % (M.hx(a), op, M.hx(b), o[1]))
            raise _Stop()
        return o

    def show(o):
        return '%s %s' % (o[0], ' '.join(M.hx(v) if isinstance(v, bytes) else str(v) for v in o[1:]))

    def is_zero_result(o):
        return o[0] == 'ok' and mbf.decode(o[1]) == 0

    # -- commutativity, bit for bit
    for op in '+*':
        o1, o2 = obs(op, x, y), obs(op, y, x)
        if o1 != o2:
            res.fail('commute.' + OPN[op], '%s: x%sy -> %s ; y%sx -> %s' % (tag, op, show(o1), op, show(o2)))
        if o1[0] == 'ok':
            if both_int:
                if len(o1[1]) not in (2, 4):
                    res.fail('type.' + OPN[op], '%s: result %s' % (tag, show(o1)))
            elif len(o1[1]) != nr:
                res.fail('type.' + OPN[op], '%s: x%sy -> %s, expected %d bytes' % (tag, op, show(o1), nr))
        else:
            res.label('error-outcome')

    # -- neutral elements
    z = bytes(ny)
    one = ONE[ny]
    want = M.promote_bytes(x, nr)
    assert mbf.decode(want) == vx
    idents = [('x+0', '+', x, z), ('0+x', '+', z, x), ('x*1', '*', x, one), ('1*x', '*', one, x),
              ('x/1', '/', x, one)]
    if ny > 2 and y[-1] == 0 and y != z:
        idents += [('x+0', '+', x, y), ('0+x', '+', y, x)]
    for name, op, a, b in idents:
        o = obs(op, a, b)
        key = 'neutral.' + name
        msg = '%s: %s with %s %s %s -> %s, expected %s' % (tag, name, M.hx(a), op, M.hx(b), show(o), M.hx(want))
        if o[0] != 'ok':
            res.fail(key, msg)
            continue
        r = o[1]
        if both_int:
            if len(r) not in (2, 4) or mbf.decode(r) != vx:
                res.fail(key, msg)
            continue
        if len(r) != nr:
            res.fail('type.' + OPN[op], msg)
        elif mbf.decode(r) != vx or (vx != 0 and r != want):
            if op == '*' and nr == 8 and 0 < abs(vx) < BAND_HI and mbf.decode(r) == 0:
                res.excluded += 1
                res.fail('mul.double.underflow-band', msg)
            else:
                res.fail(key, msg)

    if route == 'prog':
        return

    # -- mixed types promote to the wider type before computing
    if nx != ny or both_int:
        px, py = M.promote_bytes(x, nr), M.promote_bytes(y, nr)
        for op in '+-*/':
            o1, o2 = obs(op, x, y), obs(op, px, py)
            ok = o1 == o2
            if not ok and is_zero_result(o1) and is_zero_result(o2) and len(o1[1]) == len(o2[1]):
                ok = True
            if not ok and both_int and o1[0] == 'ok' and o2[0] == 'ok' and \
                    mbf.decode(o1[1]) == mbf.decode(o2[1]):
                ok = True
            if not ok and op == '/' and vy == 0 and vx == 0 and o1[:2] == o2[:2]:
                ok = True         # 0/0: sign of the maximum is not specified
            if not ok:
                res.fail('promote.' + OPN[op], '%s: x%sy -> %s ; promoted operands -> %s' % (
                    tag, op, show(o1), show(o2)))

    # -- x - x = 0
    o = obs('-', x, x)
    if o[0] != 'ok' or mbf.decode(o[1]) != 0 or (len(o[1]) != max(nx, 4) and not nx == 2):
        res.fail('self-difference', '%s: x-x -> %s' % (tag, show(o)))

    # -- unary
    for name in ('NEG2', 'ABS', 'SGN'):
        o = unop_observe(name, x, route)
        if o[0] == 'budget':
            res.inconclusive = True
            return
        if o[0] == 'escaped':
            res.fail(o[1], '%s(%s) [%s]' % (name, M.hx(x), route))
            return
        msg = '%s: %s -> %s' % (tag, name, show(o))
        if o[0] != 'ok':
            res.fail('unary.' + name.lower(), msg)
            continue
        r = o[1]
        rv = mbf.decode(r)
        if name == 'NEG2':
            if rv != vx or (nx > 2 and (len(r) != nx or (vx != 0 and r != x))) or (
                    nx == 2 and len(r) not in (2, 4)):
                res.fail('unary.neg2', msg)
        elif name == 'ABS':
            if rv < 0 or rv != abs(vx) or (nx > 2 and len(r) != nx) or (nx == 2 and len(r) not in (2, 4)):
                res.fail('unary.abs', msg)
        else:
            if len(r) != 2 or rv not in (-1, 0, 1) or rv != (vx > 0) - (vx < 0):
                res.fail('unary.sgn', msg)


def check_case(case):
    res = Result()
    if case['u'] != 'ident':
        raise ValueError(case['u'])
    x, y, route = M.unlat(case['x']), M.unlat(case['y']), case['route']
    nx, ny = len(x), len(y)
    ex = x[-1] if nx > 2 else None
    ey = y[-1] if ny > 2 else None
    res.nt(nx != ny or ex != ey or (ex is not None and (ex <= 3 or ex >= 253)))
    res.label('%s-%s.%s' % (M.TNAME[nx], M.TNAME[ny], route))
    if ex == 0 and x != bytes(nx):
        res.label('x-dirty-zero')
    if ex is not None and ex != 0 and (ex <= 3 or ex >= 253):
        res.label('x-extreme-exponent')
    if nx == 8 and 0 < ex < 33:
        res.label('x-double-below-2^-96')
    try:
        judge(res, x, y, route)
    except _Stop:
        pass
    return res


# ---------------------------------------------------------------------------------------------
# generators

def gen_case(rng, route='api'):
    x, y, _ = M.gen_related(rng)
    return {'u': 'ident', 'x': M.lat(x), 'y': M.lat(y), 'route': route}


def gen_pairs(shard, nshards, tier, seed):
    rng = random.Random(seed)
    for _ in range(10000 if tier == 'quick' else 250000):
        yield gen_case(rng)


def gen_ints(shard, nshards, tier, seed):
    """every int16 as x; y rotates through the three types."""
    rng = random.Random(seed)
    for v in range(-32768 + shard, 32768, nshards):
        ny = (2, 4, 8)[(v // nshards) % 3]
        y = M.gen_value(rng, ny)[0] if (v // nshards) % 2 else M.promote_bytes(mbf.int16_bytes(v), ny)
        yield {'u': 'ident', 'x': M.lat(mbf.int16_bytes(v)), 'y': M.lat(y), 'route': 'api'}


def strat_ident():
    def build(sd, route, raw, mode, nx, ny):
        if mode == 0:
            return {'u': 'ident', 'x': M.lat(raw[:nx]), 'y': M.lat(raw[8:8 + ny]), 'route': route}
        return gen_case(random.Random(sd), route)
    return st.builds(build, st.integers(0, 2 ** 40), st.sampled_from(['eval', 'eval', 'prog']),
                     st.binary(min_size=16, max_size=16), st.integers(0, 4),
                     st.sampled_from([2, 4, 8]), st.sampled_from([2, 4, 8]))


def units(tier):
    return [
        Unit('pairs-api', 'enum', shards=16, gen=gen_pairs),
        Unit('int-all', 'enum', shards=16, gen=gen_ints, exhaustive=True),
        Unit('ident-eval', 'hyp', shards=16, examples={'quick': 300, 'thorough': 6000},
             strategy=strat_ident),
    ]


def _i(hx_, hy, route='api'):
    return {'u': 'ident', 'x': M.lat(bytes.fromhex(hx_)), 'y': M.lat(bytes.fromhex(hy)), 'route': route}


REGRESSIONS = [
    # fixed 9479e0ab: x*1 = 0 for doubles below 2^-96
    _i('fd434b2cb3ce011a', '0000000000000081'),
    _i('fd434b2cb3ce011a', '0100', 'eval'),
    _i('0080', '0080'),                       # -32768 with itself: negation/ABS promote
    _i('0080', 'ffffffffffffffff', 'eval'),
    _i('ffff7fff', 'ffffffffffff7fff'),
    _i('01020300', '0000000000000000', 'prog'),
    _i('00000001', '0100', 'eval'),
]

KILLS = [
    'seeded/C05 (Float.sign tests the sign bit before the zero exponent) => unary.sgn',
    'numbers.Float._add_den: sticky/zero_flag made to depend on which operand came first => commute.add',
    'values.mul: promote to double only if both operands are doubles => type.mul, promote.mul, neutral.x*1',
    'numbers.Float.sign: exponent-0 test replaced by all-bytes-zero test (dirty zeros get a sign) => unary.sgn',
    'values.add: integer left operand no longer promoted to float => promote.add (int-all)',
    'numbers.Float.imul: revert 9479e0ab => mul.double.underflow-band (regression case + pairs-api)',
    'NOTE: removing the operand swap in _add_den altogether makes Float._normalise loop forever on a negative mantissa; the per-case wall limit then marks cases inconclusive (by framework rule not a violation)',
]
