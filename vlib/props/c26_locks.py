"""
C26 - file sharing and record locks exclude each other.

Stateful model-based check: a case is a list of operations (OPEN in every mode with ACCESS/LOCK
clauses, LOCK/UNLOCK with ranges placed relative to held ones, GET/PUT, CLOSE) over file numbers
1..3 on one or two host files. `check_case` interprets it against a fresh session and against an
interval model and compares the outcome of every statement and, after every step, the lock sets
the session actually holds (read from the disk device's state, no hook).

Model: per open number its host file, mode and clauses, and a set of held ranges; a range is
(lo, hi) with lo <= hi or WHOLE. Two ranges intersect iff one of them is WHOLE or
lo <= hi' and lo' <= hi.
"""
import os

from hypothesis import strategies as st

from vlib.core import Result, Unit
from vlib import harness

ID = 'C26'
LEVEL = 'exploration'
TECHNIQUE = ("Hypothesis operation sequences (OPEN x mode x ACCESS x LOCK clause, LOCK/UNLOCK ranges "
             "placed relative to held ranges, GET/PUT, CLOSE) vs. an interval model; lock sets read "
             "from the session state after every step")
RULE = ("Histories of up to 40 (quick) / 120 (thorough) operations over file numbers 1-3 on two host "
        "files: OPEN FOR RANDOM/INPUT/OUTPUT/APPEND with every valid ACCESS and SHARED/LOCK clause, "
        "LOCK/UNLOCK of whole files, single records and ranges chosen relative to a held range "
        "(equal, inside, containing, overlapping left/right, adjacent, disjoint, same start, same "
        "end) or absolute in 1..14 and at the limits 1, 2^25-2, GET/PUT of records inside, at the "
        "edges of and just outside held ranges, with a record number or without one (then the "
        "record after the last one accessed: positioned by explicit or earlier implicit accesses, "
        "also with the range locked afterwards relative to that pointer, so that the implicit "
        "access falls on the first/last record of, just before or just after a range held through "
        "another or the same number), CLOSE. Non-trivial: some LOCK request intersects a "
        "range held through a different file number, or a GET/PUT addresses a record locked through "
        "another number. Distinct = distinct case hash.")
ASSUMPTIONS = [
    "clause 1 ('a file open for OUTPUT or APPEND cannot be opened again') is asserted as: OPEN FOR "
    "OUTPUT/APPEND of a file that is open under any number fails with File already open. Opening "
    "for INPUT/RANDOM a file that is open for OUTPUT/APPEND succeeds in GW-BASIC 3.23 (repo test "
    "LockFilesOutput, model built on MS-DOS) and in the manual's wording, so it is not asserted "
    "(labelled 'open:second-open-of-output-file')",
    "'reading or writing a locked record fails' is asserted for GET/PUT on RANDOM numbers (any "
    "BASIC error counts as failing; the code is labelled), except GET when the lock holder is open "
    "for OUTPUT/APPEND (GW-BASIC allows that read; repo test LockFilesOutput line 80)",
    "LOCK/UNLOCK on a number open for INPUT/OUTPUT/APPEND ignore the bounds and act on the whole "
    "file (manual)",
    "OPEN sharing-clause compatibility is asserted only where the manual is explicit: everything "
    "default => allowed; default vs. SHARED/LOCK in either order => Permission denied; new LOCK "
    "READ WRITE on an open file => denied; existing 'lock only' vs. new 'ACCESS x SHARED' => the "
    "manual's table; both with explicit ACCESS => the symmetric LOCK x ACCESS rule. Elsewhere the "
    "model follows the observed outcome",
    "GET/PUT of a record nobody else has locked must succeed only when no ACCESS/LOCK clause is in "
    "play on that file; otherwise success or Path/File access error are both accepted",
    "record pointer per RANDOM number: 1 after OPEN, last accessed record + 1 after a successful "
    "GET/PUT; after a refused access the statement does not say where it stands, so accesses "
    "without record number are skipped until the next successful explicit access",
    "a refused PUT must leave the record unchanged: compared on the host file bytes (after LOF "
    "flushed every number's stream) and through a GET of the lock holder (the latter can be blind "
    "while finding C25 alias.* - per-number buffered streams - is open, never falsely red)",
    "ranges with start > stop and the form 'LOCK #n, TO b' (Syntax error in the implementation, "
    "allowed by the manual) are not generated",
]

WHOLE = 'whole'
MAXLOCK = 2 ** 25 - 2
FILES = ['LK.DAT', 'LM.DAT']
RECLEN = 4

K_CONTAIN = 'lock.containing-accepted'

REG_CONTAIN = {'known': True, 'ops': [
    {'o': 'open', 'n': 0, 'f': 0, 'mode': 'R', 'acc': '', 'lock': '', 'lc': False},
    {'o': 'open', 'n': 0, 'f': 0, 'mode': 'R', 'acc': '', 'lock': '', 'lc': True},
    {'o': 'lock', 'n': 0, 'rng': {'k': 'abs', 'lo': 3, 'hi': 4}},
    {'o': 'lock', 'n': 1, 'rng': {'k': 'abs', 'lo': 2, 'hi': 5}},
]}
_PRESENT = {}


def defect_present(key):
    if key not in _PRESENT:
        _PRESENT[key] = None
        r = check_case(REG_CONTAIN)
        _PRESENT[key] = key in r.keys()
    return bool(_PRESENT[key])


def rep(v):
    """Clamp to 1..2^25-2 and to a value that survives the single-precision record number."""
    v = max(1, min(MAXLOCK, int(v)))
    if v > 2 ** 24:
        v -= v % 2
    return v


def intersects(x, y):
    if x == WHOLE or y == WHOLE:
        return True
    return x[0] <= y[1] and y[0] <= x[1]


def lockset_of(clause):
    return {'R': {'R'}, 'W': {'W'}, 'RW': {'R', 'W'}}.get(clause, set())


CLAUSE_TEXT = {'': '', 'SHARED': ' SHARED', 'R': ' LOCK READ', 'W': ' LOCK WRITE',
               'RW': ' LOCK READ WRITE'}
ACCESS_TEXT = {'': '', 'R': ' ACCESS READ', 'W': ' ACCESS WRITE', 'RW': ' ACCESS READ WRITE'}
MODE_TEXT = {'R': ' FOR RANDOM', 'I': ' FOR INPUT', 'O': ' FOR OUTPUT', 'A': ' FOR APPEND'}
VALID_ACCESS = {'R': ['', 'R', 'W', 'RW'], 'I': ['', 'R'], 'O': ['', 'W'], 'A': ['', 'RW']}


class Num(object):
    def __init__(self, f, mode, acc, lock):
        self.f, self.mode, self.acc, self.lock = f, mode, acc, lock
        self.held = set()
        # record pointer of a RANDOM number: the record an access without record number goes to
        # (1 after OPEN, last accessed + 1 afterwards); None = unknown (after a refused access the
        # statement does not say where the pointer stands)
        self.next = 1


class Run(object):

    def __init__(self, case, res):
        self.case, self.res = case, res
        self.known = bool(case.get('known'))
        self.nums = {}
        self.stop = False
        self.step = 0

    def fail(self, key, msg):
        self.res.fail(key, 'step %d: %s' % (self.step, msg))

    def ex(self, text):
        o = self.s.execute(text)
        if o.kind == 'budget':
            self.res.inconclusive = True
            self.stop = True
            return None
        if o.kind != 'ok':
            self.fail('escaped.%s@%s' % (o.exc, o.frame), '%r\n%s' % (text, o.tb))
            self.stop = True
            return None
        return o

    def pick(self, k, modes=None):
        nums = sorted(n for n, m in self.nums.items() if modes is None or m.mode in modes)
        return nums[k % len(nums)] if nums else None

    def held_on(self, f, exclude=None):
        """Sorted list of (owner, range) held on host file f."""
        out = []
        for n in sorted(self.nums):
            m = self.nums[n]
            if m.f == f and n != exclude:
                for r in sorted(m.held, key=lambda x: (0, 0, 0) if x == WHOLE else (1,) + x):
                    out.append((n, r))
        return out

    def describe(self):
        return '; '.join('#%d %s%s%s on %s holds %s' % (
            n, m.mode, ACCESS_TEXT[m.acc], CLAUSE_TEXT[m.lock], FILES[m.f],
            sorted(map(str, m.held))) for n, m in sorted(self.nums.items()))

    # -- state comparison -------------------------------------------------------------------

    def check_state(self, what):
        params = self.s.impl.files.get_device(b'Z:')._locks._locking_parameters
        actual = {}
        for n, p in params.items():
            actual[n] = {WHOLE if (a is None and b is None) else (a, b) for a, b in p.lock_set}
        model = {n: set(m.held) for n, m in self.nums.items()}
        # invariant on the real state: ranges held on one host file are pairwise disjoint
        for f in range(len(FILES)):
            names = {FILES[f]}
            held = [(n, r) for n, p in sorted(params.items()) if p.name.decode('latin-1') in names
                    for r in sorted(actual[n], key=str)]
            for i in range(len(held)):
                for j in range(i + 1, len(held)):
                    if intersects(held[i][1], held[j][1]):
                        self.fail(self.overlap_key(held[i][1], held[j][1]),
                                  '%s: ranges held at the same time overlap: #%d %s and #%d %s' % (
                                      what, held[i][0], held[i][1], held[j][0], held[j][1]))
                        self.stop = True
                        return
        if actual != model:
            self.fail('state.lockset', '%s: session holds %r, model %r' % (what, actual, model))
            self.stop = True

    @staticmethod
    def overlap_key(x, y):
        if x != WHOLE and y != WHOLE:
            for a, b in ((x, y), (y, x)):
                if a[0] < b[0] and b[1] < a[1]:
                    return K_CONTAIN
        return 'invariant.overlap'

    # -- operations -------------------------------------------------------------------------

    def do_open(self, op):
        closed = [n for n in (1, 2, 3) if n not in self.nums]
        if not closed:
            self.res.label('skip:all-numbers-open')
            return
        n = closed[op['n'] % len(closed)]
        f = op['f'] % len(FILES)
        mode = op['mode']
        acc = op['acc'] if op['acc'] in VALID_ACCESS[mode] else ''
        lock = op['lock']
        name = FILES[f].lower() if op.get('lc') else FILES[f]
        text = 'OPEN "%s"%s%s%s AS #%d%s' % (
            name, MODE_TEXT[mode], ACCESS_TEXT[acc], CLAUSE_TEXT[lock], n,
            ' LEN=%d' % RECLEN if mode == 'R' else '')
        if mode == 'R' and not acc and not lock and op.get('old'):
            text = 'OPEN "R",#%d,"%s",%d' % (n, name, RECLEN)
        existing = [(k, m) for k, m in sorted(self.nums.items()) if m.f == f]
        exp, why = self.expect_open(mode, acc, lock, existing)
        o = self.ex(text)
        if o is None:
            return
        self.res.label('op:open-%s' % mode)
        ctx = '%s with {%s}' % (text, self.describe())
        opened = (o.err == 0)
        if exp == 'ok':
            if o.err:
                self.fail('open.refused.' + why, '%s -> %r, expected success' % (ctx, o.errors))
        elif exp == 'silent':
            self.res.label('open:%s:%s' % (why, 'accepted' if opened else 'err%d' % o.err))
            if o.err not in (0, 70, 55):
                self.fail('open.unexpected-error', '%s -> %r' % (ctx, o.errors))
        else:
            if o.err != exp:
                self.fail('open.accepted.' + why if opened else 'open.wrong-error.' + why,
                          '%s -> %r, expected error %d' % (ctx, o.errors or 'success', exp))
            else:
                self.res.label('open:refused-%d' % exp)
        if opened:
            self.nums[n] = Num(f, mode, acc, lock)
            if existing:
                self.res.label('open:shared-file')
            if mode == 'R':
                o = self.ex('FIELD #%d, %d AS F%d$' % (n, RECLEN, n))
                if o is not None and o.errors:
                    self.fail('field.error', 'FIELD #%d -> %r' % (n, o.errors))
                    self.stop = True

    def expect_open(self, mode, acc, lock, existing):
        """-> ('ok' | 'silent' | error code, reason tag)"""
        if not existing:
            return 'ok', 'first-open'
        if mode in 'OA':
            return 55, 'output-of-open-file'
        if all(not m.lock for _, m in existing) and not lock:
            if any(m.mode in 'OA' for _, m in existing):
                return 'silent', 'second-open-of-output-file'
            return 'ok', 'all-default'
        if any(m.mode in 'OA' for _, m in existing):
            return 'silent', 'second-open-of-output-file'
        if (not lock) or any(not m.lock for _, m in existing):
            return 70, 'default-vs-sharing-clause'
        if lock == 'RW':
            return 70, 'lock-read-write-on-open-file'
        if acc and all(m.acc for _, m in existing):
            deny = any((lockset_of(lock) & set(m.acc)) or (lockset_of(m.lock) & set(acc))
                       for _, m in existing)
            return (70 if deny else 'ok'), 'lock-x-access'
        if acc and lock == 'SHARED' and all(not m.acc for _, m in existing):
            deny = any(lockset_of(m.lock) & set(acc) for _, m in existing)
            return (70 if deny else 'ok'), 'manual-table'
        return 'silent', 'clause-combination'

    def do_close(self, op):
        n = self.pick(op['n'])
        if n is None:
            return
        o = self.ex('CLOSE #%d' % n)
        if o is None:
            return
        if o.errors:
            self.fail('close.error', 'CLOSE #%d -> %r' % (n, o.errors))
            self.stop = True
            return
        if self.nums[n].held:
            self.res.label('close:with-locks-held')
        del self.nums[n]
        self.res.label('op:close')

    def make_range(self, n, sel):
        """Interpret a range selector -> WHOLE or (lo, hi), and the relation label."""
        m = self.nums[n]
        k = sel.get('k', 'abs')
        if k == 'whole':
            return WHOLE, 'whole'
        if k == 'abs':
            lo = rep(sel['lo'])
            hi = max(lo, rep(sel['hi']))
            return (lo, hi), 'abs'
        if k == 'ptr':
            # placed relative to the record pointer of a RANDOM number (usually another one), so
            # that its next access without record number lands on the first record of the range,
            # just before it, or just after its last record
            t = self.pick(int(sel.get('of', 0)), modes='R')
            base = self.nums[t].next if t is not None and self.nums[t].next else 3
            lo = rep(base + int(sel.get('d0', 0)))
            return (lo, max(lo, rep(lo + int(sel.get('w', 0))))), 'ptr'
        if k == 'own':
            held = [(n, r) for r in sorted(m.held, key=str)]
        else:
            held = self.held_on(m.f)
        if not held:
            lo = 1 + int(sel.get('p', 0)) % 6
            return (lo, lo + int(sel.get('q', 0)) % 4), 'abs'
        owner, y = held[int(sel.get('h', 0)) % len(held)]
        a, b = (3, 8) if y == WHOLE else y
        p, q = int(sel.get('p', 0)) % 4, int(sel.get('q', 0)) % 4
        rel = sel.get('rel', 'equal')
        if rel == 'equal':
            r = (a, b)
        elif rel == 'inside':
            lo = min(b, a + p)
            r = (lo, max(lo, b - q))
        elif rel == 'strictly-inside':
            if b - a >= 2:
                lo = min(b - 1, a + 1 + p)
                r = (lo, max(lo, b - 1 - q))
            else:
                r = (a, b)
        elif rel == 'contain':
            r = (max(1, a - 1 - p), min(MAXLOCK, b + 1 + q))
        elif rel == 'left':
            r = (max(1, a - 1 - p), min(b, a + q))
        elif rel == 'right':
            r = (max(a, b - p), min(MAXLOCK, b + 1 + q))
        elif rel == 'adj-left':
            r = (max(1, a - 1 - p), a - 1) if a > 1 else (b + 1, b + 1 + p)
        elif rel == 'adj-right':
            r = (min(MAXLOCK, b + 1), min(MAXLOCK, b + 1 + q))
        elif rel == 'same-start':
            r = (a, min(MAXLOCK, b + 1 + q))
        elif rel == 'same-end':
            r = (max(1, a - 1 - p), b)
        else:   # disjoint, further away
            r = (min(MAXLOCK, b + 3 + p), min(MAXLOCK, b + 3 + p + q))
        tag = rel + ('-own' if owner == n else '-other')
        r = (rep(r[0]), max(rep(r[0]), rep(r[1])))
        return r, tag

    @staticmethod
    def range_text(r, long_form):
        if r == WHOLE:
            return ''
        if r[0] == r[1] and not long_form:
            return ', %d' % r[0]
        return ', %d TO %d' % r

    def do_lock(self, op):
        n = self.pick(op['n'])
        if n is None:
            return
        m = self.nums[n]
        r, tag = self.make_range(n, op['rng'])
        eff = r if m.mode == 'R' else WHOLE
        held = self.held_on(m.f)
        hits = [(k, y) for k, y in held if intersects(eff, y)]
        cross = [(k, y) for k, y in hits if k != n]
        # known-defect region: the request strictly covers a held range without either of its end
        # points lying inside a held range
        region = (eff != WHOLE and hits and all(
            y != WHOLE and not (y[0] <= eff[0] <= y[1]) and not (y[0] <= eff[1] <= y[1])
            for _, y in hits))
        if region and not self.known and defect_present(K_CONTAIN):
            self.res.excluded += 1
            self.res.label('excluded:' + K_CONTAIN)
            return
        text = 'LOCK #%d%s' % (n, self.range_text(r, op.get('long')))
        o = self.ex(text)
        if o is None:
            return
        self.res.label('op:lock', 'lock:' + tag + ('' if m.mode == 'R' else '-textfile'))
        if cross:
            self.res.nt(True)
            self.res.label('lock:request-intersects-other-number')
        elif hits:
            self.res.label('lock:request-intersects-own')
        ctx = '%s (effective range %s) with {%s}' % (text, eff, self.describe())
        if hits:
            if o.err == 0:
                self.fail(K_CONTAIN if region else 'lock.overlap-accepted',
                          '%s succeeded although it intersects %r' % (ctx, hits))
                m.held.add(eff)     # keep following; check_state reports the overlap as well
                self.stop = True
            elif o.err != 70:
                self.fail('lock.wrong-error', '%s -> %r, expected Permission denied' % (ctx, o.errors))
        else:
            if o.err:
                self.fail('lock.spurious-denial', '%s -> %r although nothing held intersects' % (
                    ctx, o.errors))
                self.stop = True
            else:
                m.held.add(eff)
                self.res.label('lock:granted')

    def do_unlock(self, op):
        n = self.pick(op['n'])
        if n is None:
            return
        m = self.nums[n]
        r, tag = self.make_range(n, op['rng'])
        eff = r if m.mode == 'R' else WHOLE
        text = 'UNLOCK #%d%s' % (n, self.range_text(r, op.get('long')))
        o = self.ex(text)
        if o is None:
            return
        self.res.label('op:unlock')
        ctx = '%s (effective range %s) with {%s}' % (text, eff, self.describe())
        if eff in m.held:
            self.res.label('unlock:exact')
            if o.err:
                self.fail('unlock.exact-refused', '%s -> %r' % (ctx, o.errors))
                self.stop = True
            else:
                m.held.discard(eff)
        else:
            near = any(intersects(eff, y) for y in m.held)
            other = any(eff == y for k, y in self.held_on(m.f, exclude=n))
            self.res.label('unlock:inexact-overlapping' if near else (
                'unlock:held-by-other-number' if other else 'unlock:nothing-there'))
            if near or other:
                self.res.nt(bool(other))
            if o.err == 0:
                self.fail('unlock.inexact-accepted',
                          '%s succeeded although #%d does not hold exactly that range' % (ctx, n))
                self.stop = True
            elif o.err != 70:
                self.fail('unlock.wrong-error', '%s -> %r, expected Permission denied' % (
                    ctx, o.errors))

    def do_limits(self, op):
        """LOCK/UNLOCK with a bound outside 1..2^25-2 -> Bad record number (manual)."""
        n = self.pick(op['n'])
        if n is None:
            return
        bad = ['0', '-1', '33554431', '33554432', '1E10'][op['b'] % 5]
        good = 1 + op['b'] % 7
        stmt = 'UNLOCK' if op.get('un') else 'LOCK'
        form = op.get('form', 0) % 3
        if form == 0:
            text = '%s #%d, %s' % (stmt, n, bad)
        elif form == 1:
            text = '%s #%d, %s TO %d' % (stmt, n, bad, good)
        else:
            text = '%s #%d, %d TO %s' % (stmt, n, good, bad)
        o = self.ex(text)
        if o is None:
            return
        self.res.label('op:lock-limits')
        if o.err != 63:
            self.fail('lock.range-check', '%s -> %r, expected Bad record number' % (
                text, o.errors or 'success'))
            if not o.err:
                self.stop = True

    def flush_and_read(self, f, rec):
        """Bytes of record `rec` in the host file after everything pending was written out."""
        for k in sorted(self.nums):
            if self.nums[k].f == f and self.nums[k].mode == 'R':
                self.s.evaluate('LOF(%d)' % k)       # the seek behind LOF flushes that stream
        with open(os.path.join(self.s.sandbox.z, FILES[f]), 'rb') as fh:
            fh.seek((rec - 1) * RECLEN)
            return fh.read(RECLEN)

    def holder_read(self, k, rec):
        """Read record `rec` through the number that holds the lock (None if it cannot read)."""
        hm = self.nums[k]
        if hm.mode != 'R':
            return None
        o = self.ex('GET #%d, %d' % (k, rec))
        if o is None or o.errors:
            hm.next = None
            return None
        hm.next = rec + 1
        return self.s.get('F%d$' % k)

    def do_access(self, op):
        n = self.pick(op['n'], modes='R')
        if n is None:
            self.res.label('skip:no-random-number')
            return
        m = self.nums[n]
        put = op['o'] == 'put'
        sel = op['rec']
        others = self.held_on(m.f, exclude=n)
        allheld = self.held_on(m.f)
        implicit = sel.get('k') == 'imp'
        if implicit:
            if m.next is None or m.next > MAXLOCK:
                self.res.label('skip:implicit-pointer-unknown')
                return
            rec = m.next
        elif sel.get('k') == 'rel' and allheld:
            owner, y = allheld[int(sel.get('h', 0)) % len(allheld)]
            a, b = (1, 6) if y == WHOLE else y
            where = sel.get('at', 'lo')
            rec = {'lo': a, 'hi': b, 'mid': (a + b) // 2, 'before': a - 1, 'after': b + 1,
                   'before2': a - 2, 'hi-1': b - 1}[where]
            rec = rep(rec)
        else:
            rec = 1 + int(sel.get('r', 0)) % 14
        if put and rec > 64:
            # a PUT far beyond the end would write up to 128 MiB of padding: read instead
            put = False
        blockers = [(k, y) for k, y in others if intersects((rec, rec), y)]
        mine = [y for k, y in allheld if k == n and intersects((rec, rec), y)]
        before = held_before = None
        if put:
            o = self.ex('LSET F%d$="S%03d"' % (n, self.step % 1000))
            if o is None:
                return
            if blockers:
                # the PUT must be refused: remember the record, as the host file holds it and as
                # the lock holder reads it
                before = self.flush_and_read(m.f, rec)
                held_before = self.holder_read(blockers[0][0], rec)
                if self.stop:
                    return
        if implicit:
            text = '%s #%d' % ('PUT' if put else 'GET', n)
            shown = '%s (record pointer at %d)' % (text, rec)
        else:
            text = shown = '%s #%d, %d' % ('PUT' if put else 'GET', n, rec)
        o = self.ex(text)
        if o is None:
            return
        self.res.label(('op:put' if put else 'op:get') + ('-implicit' if implicit else ''))
        m.next = rec + 1 if not o.err else None
        ctx = '%s with {%s}' % (shown, self.describe())
        # where the accessed record lies relative to the ranges (labels for implicit accesses)
        if implicit:
            for k, y in allheld:
                if y == WHOLE:
                    continue
                who = 'own' if k == n else 'other'
                for name, r in (('just-before', y[0] - 1), ('first', y[0]), ('last', y[1]),
                                ('just-after', y[1] + 1)):
                    if rec == r:
                        self.res.label('implicit:%s-of-%s-range' % (name, who))
        if blockers:
            self.res.nt(True)
            if (not put) and all(self.nums[k].mode in 'OA' for k, _ in blockers):
                self.res.label('access:get-vs-lock-of-output-file:err%d' % o.err)
                return
            self.res.label('access:locked-by-other:err%d' % o.err)
            if o.err == 0:
                self.fail('access.locked-record-allowed',
                          '%s succeeded although the record is locked through %r' % (ctx, blockers))
            elif put:
                after = self.flush_and_read(m.f, rec)
                if after != before:
                    self.fail('access.refused-put-changed-record', '%s -> %r but record %d of the '
                              'host file changed from %r to %r' % (ctx, o.errors, rec, before, after))
                held_after = self.holder_read(blockers[0][0], rec)
                if held_before is not None and held_after is not None and held_after != held_before:
                    self.fail('access.refused-put-changed-record', '%s -> %r but the lock holder '
                              '#%d reads record %d as %r, before %r' % (
                                  ctx, o.errors, blockers[0][0], rec, held_after, held_before))
        else:
            clauses = any(x.acc or x.lock for x in self.nums.values() if x.f == m.f)
            self.res.label('access:own-lock' if mine else 'access:unlocked')
            if o.err and not (clauses and o.err == 75):
                self.fail('access.unlocked-refused', '%s -> %r although no other number locks '
                          'record %d' % (ctx, o.errors, rec))

    # -- driver -----------------------------------------------------------------------------

    def run(self):
        with harness.Sess(budget=20000) as s:
            self.s = s
            for name in FILES:
                with open(os.path.join(s.sandbox.z, name), 'wb') as fh:
                    fh.write(b'abcd' * 12)
            table = {'open': self.do_open, 'close': self.do_close, 'lock': self.do_lock,
                     'unlock': self.do_unlock, 'get': self.do_access, 'put': self.do_access,
                     'limits': self.do_limits}
            for i, op in enumerate(self.case['ops']):
                self.step = i
                table[op['o']](op)
                if self.stop:
                    break
                self.check_state('after %r' % (op,))
                if self.stop:
                    break


def check_case(case):
    res = Result()
    Run(case, res).run()
    return res


# ------------------------------------------------------------------------------------------------
# generators

RELS = ['equal', 'inside', 'strictly-inside', 'contain', 'contain', 'left', 'right', 'adj-left',
        'adj-right', 'same-start', 'same-end', 'disjoint']


def weighted(*pairs):
    table = [strat for strat, wgt in pairs for _ in range(wgt)]
    return st.integers(0, len(table) - 1).flatmap(lambda i: table[i])


def strat_case(maxops):
    k = st.integers(0, 5)
    small = st.integers(0, 3)
    rng_abs = st.builds(lambda lo, w: {'k': 'abs', 'lo': lo, 'hi': lo + w},
                        st.integers(1, 12), st.sampled_from([0, 0, 1, 2, 3, 6]))
    rng_edge = st.builds(lambda lo, hi: {'k': 'abs', 'lo': min(lo, hi), 'hi': max(lo, hi)},
                         st.sampled_from([1, 2, MAXLOCK - 2, MAXLOCK]),
                         st.sampled_from([1, 5, MAXLOCK - 2, MAXLOCK]))
    rng_rel = st.builds(lambda kind, h, rel, p, q: {'k': kind, 'h': h, 'rel': rel, 'p': p, 'q': q},
                        st.sampled_from(['rel', 'rel', 'own']), k, st.sampled_from(RELS), small,
                        small)
    rng_whole = st.just({'k': 'whole'})
    rng = weighted((rng_abs, 3), (rng_rel, 8), (rng_whole, 1), (rng_edge, 1))
    unl = weighted((rng_abs, 1), (rng_whole, 1), (st.builds(
        lambda kind, h, rel, p, q: {'k': kind, 'h': h, 'rel': rel, 'p': p, 'q': q},
        st.sampled_from(['own', 'own', 'rel']), k,
        st.sampled_from(['equal', 'equal', 'equal', 'inside', 'contain', 'left', 'right',
                         'same-start', 'same-end', 'adj-right']), small, small), 6))
    rec = weighted(
        (st.builds(lambda h, at: {'k': 'rel', 'h': h, 'at': at}, k,
                   st.sampled_from(['lo', 'hi', 'mid', 'before', 'after', 'before2', 'before',
                                    'hi-1'])), 3),
        (st.builds(lambda r: {'k': 'abs', 'r': r}, st.integers(0, 13)), 1),
        (st.just({'k': 'imp'}), 3))
    mode = st.sampled_from(['R', 'R', 'R', 'R', 'R', 'I', 'O', 'A'])
    op_open = st.builds(
        lambda n, f, mode, acc, lock, lc, old: {'o': 'open', 'n': n, 'f': f, 'mode': mode,
                                                'acc': acc, 'lock': lock, 'lc': lc, 'old': old},
        k, st.sampled_from([0, 0, 0, 0, 1]), mode,
        st.sampled_from(['', '', '', 'R', 'W', 'RW']),
        st.sampled_from(['', '', '', '', 'SHARED', 'SHARED', 'R', 'W', 'RW']),
        st.booleans(), st.booleans())
    op_open_plain = st.builds(
        lambda n, f, mode, lc: {'o': 'open', 'n': n, 'f': f, 'mode': mode, 'acc': '', 'lock': '',
                                'lc': lc, 'old': False},
        k, st.sampled_from([0, 0, 0, 0, 1]), mode, st.booleans())
    op_open_shared = st.builds(
        lambda n, acc: {'o': 'open', 'n': n, 'f': 0, 'mode': 'R', 'acc': acc, 'lock': 'SHARED',
                        'lc': False, 'old': False},
        k, st.sampled_from(['', 'R', 'W', 'RW', 'RW']))
    op_close = st.builds(lambda n: {'o': 'close', 'n': n}, k)
    op_lock = st.builds(lambda n, r, lg: {'o': 'lock', 'n': n, 'rng': r, 'long': lg}, k, rng,
                        st.booleans())
    op_unlock = st.builds(lambda n, r, lg: {'o': 'unlock', 'n': n, 'rng': r, 'long': lg}, k, unl,
                          st.booleans())
    op_get = st.builds(lambda n, r: {'o': 'get', 'n': n, 'rec': r}, k, rec)
    op_put = st.builds(lambda n, r: {'o': 'put', 'n': n, 'rec': r}, k, rec)
    op_lim = st.builds(lambda n, b, un, form: {'o': 'limits', 'n': n, 'b': b, 'un': un,
                                               'form': form}, k, st.integers(0, 34),
                       st.booleans(), st.integers(0, 2))
    # position one number, let another one lock a range placed relative to that pointer, then
    # access without record number (twice): first / just-before / just-after-last records
    acc = st.sampled_from(['get', 'put'])
    walk = st.builds(
        lambda n, n2, r, d0, w, a1, a2, a3: [
            {'o': a1, 'n': n, 'rec': r},
            {'o': 'lock', 'n': n2, 'rng': {'k': 'ptr', 'of': n, 'd0': d0, 'w': w}, 'long': True},
            {'o': a2, 'n': n, 'rec': {'k': 'imp'}},
            {'o': a3, 'n': n, 'rec': {'k': 'imp'}}],
        k, k, st.builds(lambda r: {'k': 'abs', 'r': r}, st.integers(0, 9)),
        st.sampled_from([0, 0, 1, 1, 2, -1, -2, -3]), st.sampled_from([0, 1, 2, 3]), acc, acc, acc)
    single = weighted((op_open_plain, 2), (op_open, 1), (op_open_shared, 1), (op_close, 1),
                      (op_lock, 9), (op_unlock, 4), (op_get, 4), (op_put, 4), (op_lim, 1))
    one = weighted((single.map(lambda o: [o]), 12), (walk, 1))
    body = st.integers(1, maxops).flatmap(
        lambda n: st.lists(one, min_size=n, max_size=n)).map(
            lambda groups: [o for g in groups for o in g][:maxops + 8])
    # most histories start with two numbers on the same file so that ranges can meet
    start = st.one_of(
        st.tuples(op_open_plain, op_open_plain).map(list),
        st.tuples(op_open_shared, op_open_shared).map(list),
        st.tuples(op_open).map(list))
    return st.builds(lambda a, b: {'ops': a + b}, start, body)


def units(tier):
    maxops = 40 if tier == 'quick' else 120
    # VERIF_DIV=n runs 1/n of the examples (same seeds, i.e. a prefix): used for mutation runs only
    div = max(1, int(os.environ.get('VERIF_DIV', '1')))
    return [
        Unit('histories', 'hyp', shards=16, examples={'quick': 200 // div, 'thorough': 3500 // div},
             strategy=lambda: strat_case(maxops)),
    ]


REGRESSIONS = [
    # fixed 4d4fdd37: a new range strictly containing a held one was accepted
    REG_CONTAIN,
    # directed tour: equal / inside / adjacent / whole-file / UNLOCK exactness / access / close
    {'ops': [
        {'o': 'open', 'n': 0, 'f': 0, 'mode': 'R', 'acc': '', 'lock': '', 'lc': False, 'old': True},
        {'o': 'open', 'n': 0, 'f': 0, 'mode': 'R', 'acc': '', 'lock': '', 'lc': True},
        {'o': 'open', 'n': 0, 'f': 0, 'mode': 'O', 'acc': '', 'lock': '', 'lc': False},
        {'o': 'open', 'n': 0, 'f': 0, 'mode': 'I', 'acc': '', 'lock': '', 'lc': False},
        {'o': 'lock', 'n': 0, 'rng': {'k': 'abs', 'lo': 3, 'hi': 6}},
        {'o': 'lock', 'n': 1, 'rng': {'k': 'rel', 'h': 0, 'rel': 'equal', 'p': 0, 'q': 0}},
        {'o': 'lock', 'n': 1, 'rng': {'k': 'rel', 'h': 0, 'rel': 'strictly-inside', 'p': 0, 'q': 0}},
        {'o': 'lock', 'n': 1, 'rng': {'k': 'rel', 'h': 0, 'rel': 'left', 'p': 1, 'q': 0}},
        {'o': 'lock', 'n': 1, 'rng': {'k': 'rel', 'h': 0, 'rel': 'right', 'p': 0, 'q': 1}},
        {'o': 'lock', 'n': 0, 'rng': {'k': 'rel', 'h': 0, 'rel': 'inside', 'p': 1, 'q': 1}},
        {'o': 'lock', 'n': 1, 'rng': {'k': 'rel', 'h': 0, 'rel': 'adj-left', 'p': 1, 'q': 0}},
        {'o': 'lock', 'n': 1, 'rng': {'k': 'rel', 'h': 0, 'rel': 'adj-right', 'p': 0, 'q': 2}},
        {'o': 'lock', 'n': 2, 'rng': {'k': 'whole'}},
        {'o': 'get', 'n': 1, 'rec': {'k': 'rel', 'h': 0, 'at': 'lo'}},
        {'o': 'put', 'n': 1, 'rec': {'k': 'rel', 'h': 0, 'at': 'hi'}},
        {'o': 'get', 'n': 0, 'rec': {'k': 'rel', 'h': 0, 'at': 'mid'}},
        {'o': 'get', 'n': 1, 'rec': {'k': 'abs', 'r': 11}},
        {'o': 'unlock', 'n': 1, 'rng': {'k': 'abs', 'lo': 3, 'hi': 6}},
        {'o': 'unlock', 'n': 0, 'rng': {'k': 'abs', 'lo': 3, 'hi': 5}},
        {'o': 'unlock', 'n': 0, 'rng': {'k': 'abs', 'lo': 3, 'hi': 6}},
        {'o': 'lock', 'n': 2, 'rng': {'k': 'abs', 'lo': 1, 'hi': 1}},
        {'o': 'limits', 'n': 0, 'b': 3, 'un': False, 'form': 2},
        {'o': 'close', 'n': 1},
        {'o': 'lock', 'n': 1, 'rng': {'k': 'whole'}},
    ]},
]

REGRESSIONS.append(
    # accesses WITHOUT record number go to the record after the last one accessed; the lock test
    # must look at that record (reviewer's seeded change tested the previous one)
    {'ops': [
        {'o': 'open', 'n': 0, 'f': 0, 'mode': 'R', 'acc': '', 'lock': '', 'lc': False},
        {'o': 'open', 'n': 0, 'f': 0, 'mode': 'R', 'acc': '', 'lock': '', 'lc': True},
        {'o': 'get', 'n': 1, 'rec': {'k': 'abs', 'r': 5}},                      # GET #2,6
        {'o': 'lock', 'n': 0, 'rng': {'k': 'ptr', 'of': 1, 'd0': -4, 'w': 3}},   # LOCK #1,3 TO 6
        {'o': 'get', 'n': 1, 'rec': {'k': 'imp'}},                              # record 7: free
        {'o': 'put', 'n': 1, 'rec': {'k': 'imp'}},                              # record 8: free
        {'o': 'get', 'n': 1, 'rec': {'k': 'abs', 'r': 1}},                      # GET #2,2
        {'o': 'get', 'n': 1, 'rec': {'k': 'imp'}},                              # record 3: locked
        {'o': 'put', 'n': 1, 'rec': {'k': 'abs', 'r': 1}},                      # PUT #2,2
        {'o': 'put', 'n': 1, 'rec': {'k': 'imp'}},                              # record 3: locked
        {'o': 'get', 'n': 0, 'rec': {'k': 'abs', 'r': 1}},                      # GET #1,2
        {'o': 'put', 'n': 0, 'rec': {'k': 'imp'}},                              # own range: fine
        {'o': 'get', 'n': 0, 'rec': {'k': 'imp'}},
    ]})

KILLS = [
    'Locks._try_record_lock: endpoint-only overlap test restored (pre-4d4fdd37)  => ./check red: lock.containing-accepted (regression)',
    "overlap test: 'stop >= start_1' dropped => lock.spurious-denial, access.unlocked-refused ; 'start <= stop_1' dropped => same",
    'overlap test: start <= stop_1 -> start < stop_1  => lock.overlap-accepted, access.locked-record-allowed',
    'acquire_record_lock: allow_self=False -> True  => lock.overlap-accepted, lock.containing-accepted',
    'try_record_access: allow_self=True -> False  => access.unlocked-refused',
    'release_record_lock: UNLOCK by overlap instead of equality  => unlock.inexact-accepted',
    'open_file: OUTPUT/APPEND of an open file no longer refused  => open.accepted.output-of-open-file',
    'LockingParameters.name not upper-cased  => lock.overlap-accepted, open.accepted.*',
    'whole-file request ignores held ranges  => lock.overlap-accepted ; TextFile.lock keeps the bounds => state.lockset',
    '_get_lock_limits: single record locks (a, a+1)  => state.lockset, lock.spurious-denial ; limit 2**25-2 -> 2**25 => lock.range-check',
    'open_file: default-vs-clause test dropped  => open.accepted.default-vs-sharing-clause',
    'RandomFile.put checks record+1 for locks  => access.locked-record-allowed, access.unlocked-refused',
    "RandomFile.get/put: lock test moved before the pointer update, on `pos or LOC` (reviewer's seeded change: an access without record number tests the previous record) => ./check red: access.locked-record-allowed (GET #2 with the pointer on a record locked through #1) and access.unlocked-refused",
    "RandomFile.put: record written (and flushed) before the lock test => ./check red: access.refused-put-changed-record",
    "SURVIVED (equivalent): open_file '(lock_type == RW)' disjunct dropped - the LOCK x ACCESS disjunct refuses the same opens because access defaults to RW whenever a lock clause is given",
]
