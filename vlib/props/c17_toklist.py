"""
C17 - tokenising and listing are consistent.

Lines are generated as atom lists (vlib/genlines.py) that render to the typed text, the canonical
listing and the tokenised bytes by a model written from the manual's description of the tokenised
format.  Checked through a Session's tokeniser/lister and end to end (enter the line, LIST to a
file, PEEK the stored bytes, re-enter the listing).
"""
import os

from hypothesis import strategies as st

from vlib.core import Result, Unit
from vlib import harness, progio
from vlib import genlines as G

ID = 'C17'
LEVEL = 'exploration'
TECHNIQUE = ('Hypothesis grammar of canonical lines vs. an independent tokenise/list model; '
             'round trip tok(list(tok(x))); exhaustive keyword table per dialect and case variant')
RULE = ("Lines of 1-4 statements from a statement grammar (every reserved word of the dialect occurs "
        "in some template) with canonical blanks, random keyword/name capitalisation, number "
        "literals of every token class (digit, byte, int, hex, octal, single, double - floats "
        "constructed exactly representable with <=7/16 digits and spelt in up to 8 ways), jump "
        "numbers behind each of the 15 jump keywords, strings with high-bit characters, REM/' "
        "comments and DATA; dialects advanced/pcjr/tandy; line numbers 0..65529. Keyword unit: every "
        "reserved word of every dialect in upper, lower and two mixed capitalisations (exhaustive). "
        "Literal unit: boundary integers, hex/octal boundaries and a pool of exact floats in all "
        "spellings. Non-trivial: the line has >= 2 token classes, or a jump number, or a literal "
        "with an exponent; distinct = distinct (dialect, line).")
ASSUMPTIONS = [
    "canonical blanks: a reserved word is separated from neighbouring words/numbers by a blank "
    "(lines without them list with extra blanks and are outside the statement)",
    "octal literals are generated in brackets: GW-BASIC drops blanks that follow an octal literal",
    "strings/comments exclude control characters 0x00-0x1f (number-token bytes list as numbers "
    "inside literals, a documented GW-BASIC quirk) and DATA holds printable ASCII only",
    "float spellings never use more digits than the type holds (7/16); longer spellings are the "
    "subject of C07",
    "the model stores the blank behind line number 0 (GW-BASIC quirk, matches the lister dropping it)",
    "'?' typed for PRINT behind THEN/ELSE keeps its own bucket suffix .qmark-in-jump-context "
    "(fixed in /repo 6fde958d; directed regression case kept)",
]

KILLS = [
    "tokeniser._linenum_words without RESTORE -> tok.model.jump, e2e.memory",
    "lister: '(' removed from the no-blank-after-keyword list -> list.model.punct, roundtrip.tok, e2e.list",
    "numbers.Integer.to_token `byte < 10` -> `<= 10` -> tok.model.byte, e2e.memory",
    "tokens.py CVI/CVS tokens swapped -> keyword.tokenise/list/bare, tok.model.keyword",
    "tokeniser._tokenise_word without .upper() -> keyword.tokenise, tok.case, tok.model.*, roundtrip.tok",
    "Integer.to_hex lower case -> list.model.hex",
    "tokeniser: blank behind line number 0 dropped -> tok.model.*, e2e.memory",
    "unfixed tree: '?' behind THEN leaves jump-number mode -> *.qmark-in-jump-context",
]

_SESS = {}


def sess(syntax):
    """Shared session per (process, dialect); never reuse one inherited through fork."""
    key = (os.getpid(), syntax)
    ent = _SESS.get(key)
    if ent is None or ent[1] > 3000:
        if ent is not None:
            ent[0].close()
        ent = [harness.Sess(syntax=syntax), 0]
        _SESS[key] = ent
    ent[1] += 1
    return ent[0]


def tokenise(s, text):
    """-> full tokenised line bytes (with the 00 C0 DE nn nn header for numbered lines)."""
    return s.impl.tokeniser.tokenise_line(text).getvalue()


def detok(s, tokbytes):
    """tokenised line bytes (as returned by tokenise) -> listed text."""
    from pcbasic.basic.base import codestream
    ts = codestream.TokenisedStream()
    ts.write(tokbytes)
    ts.seek(1)
    _, text, _ = s.impl.lister.detokenise_line(ts)
    return bytes(text)


def first_diff_class(atoms, syntax, which, got, exp):
    """Class of the atom in which rendered stream `which` (1 canon / 2 tokens) first differs."""
    n = 0
    while n < len(got) and n < len(exp) and got[n] == exp[n]:
        n += 1
    pos = 0
    for a in atoms:
        ln = len(G.render([a], syntax)[which])
        if pos + ln > n:
            if a[0] == 'n':
                return {'d': 'digit', 'b': 'byte', 'i': 'int', 'h': 'hex', 'o': 'oct',
                        's': 'single', 'f': 'double'}[a[1]]
            return {'k': 'keyword', 'o': 'operator', 'p': 'punct', 'v': 'name', 's': 'string',
                    'j': 'jump', 'sp': 'blank', 'rem': 'comment', 'data': 'data'}[a[0]]
        pos += ln
    return 'tail'


def qmark_in_jump_context(atoms):
    """'?' typed for PRINT behind THEN/ELSE/other jump keyword in the same statement."""
    jumpy = False
    for a in atoms:
        if a[0] == 'p' and ':' in a[1]:
            jumpy = False
        elif a[0] == 'k':
            if a[1] == 'PRINT' and a[2] == -1:
                if jumpy:
                    return True
                jumpy = False
            else:
                jumpy = a[1] in ('GOTO', 'THEN', 'ELSE', 'GOSUB', 'LIST', 'RENUM', 'EDIT', 'LLIST',
                                 'DELETE', 'RUN', 'RESUME', 'AUTO', 'ERL', 'RESTORE', 'RETURN')
        elif a[0] == 'v':
            jumpy = False
    return False


def check_line(case, res):
    syntax, n, atoms = case['syntax'], case['n'], case['atoms']
    s = sess(syntax)
    ent, can, tok = G.render(atoms, syntax)
    head = ('%d ' % n).encode()
    cls = G.classes(atoms)
    res.nt(len(cls) >= 2 or 'jump' in cls or 'exponent' in cls)
    for c in sorted(cls):
        res.label('class:' + c)
    res.label('syntax:' + syntax)
    res.label('len:%d' % (min(len(can) // 50, 5) * 50))
    qm = qmark_in_jump_context(atoms)
    sfx = '.qmark-in-jump-context' if qm else ''
    try:
        t1 = tokenise(s, head + ent)
    except Exception as e:      # noqa: B902
        res.fail('escaped.%s@tokenise' % type(e).__name__, '%r: %r' % (head + ent, e))
        return res
    exp_t1 = b'\x00\xc0\xde' + bytes([n & 0xff, n >> 8]) + G.line_tokens(n, atoms, syntax)
    if t1 != exp_t1:
        c = first_diff_class(atoms, syntax, 2, t1[5 + (1 if n == 0 else 0):], tok)
        res.fail('tok.model.%s%s' % (c, sfx), '%r tokenises to %s, expected %s' % (
            head + ent, t1.hex(' '), exp_t1.hex(' ')))
    try:
        l1 = detok(s, t1)
    except Exception as e:      # noqa: B902
        res.fail('escaped.%s@list' % type(e).__name__, '%r: %r' % (head + ent, e))
        return res
    if l1 != head + can and t1 == exp_t1:
        c = first_diff_class(atoms, syntax, 1, l1[len(head):], can)
        res.fail('list.model.%s' % c, '%r lists as %r, expected %r' % (head + ent, l1, head + can))
    # the statement: the listing re-enters as the identical tokenised line
    t2 = tokenise(s, l1)
    if t2 != t1:
        res.fail('roundtrip.tok' + sfx, '%r -> %s lists as %r which re-enters as %s' % (
            head + ent, t1.hex(' '), l1, t2.hex(' ')))
    else:
        l2 = detok(s, t2)
        if l2 != l1:
            res.fail('roundtrip.list', '%r lists as %r, second listing %r' % (head + ent, l1, l2))
    # typing the canonical text gives the same tokens as the typed variant (case-insensitive)
    t3 = tokenise(s, head + can)
    if t3 != t1:
        res.fail('tok.case' + sfx, '%r -> %s but canonical %r -> %s' % (
            head + ent, t1.hex(' '), head + can, t3.hex(' ')))
    if case.get('e2e'):
        check_e2e(case, res, head, ent, can, exp_t1[5:])
    return res


def peek_program(s):
    """Program memory through PEEK: [(line number, body bytes)] or a problem description."""
    try:
        lines, problems = progio.peek_walk(s)
    except progio.PeekFailed as e:
        return 'PEEK failed: %s' % e
    if problems:
        return problems
    return [(num, body) for _, _, num, body in lines]


def list_to_file(s):
    return progio.list_to_file(s)


def check_e2e(case, res, head, ent, can, body_tokens):
    syntax, n = case['syntax'], case['n']
    s = sess(syntax)
    s.execute(b'NEW')
    o = s.execute_line(head + ent)
    res.label('e2e')
    if o.kind != 'ok' or o.errors or o.output:
        res.fail('e2e.enter.%s' % (o.key() if o.kind != 'ok' else 'error'),
                 'entering %r -> %r' % (head + ent, o))
        s.execute(b'NEW')
        return
    text, o = list_to_file(s)
    if text is None:
        res.fail('e2e.list.%s' % (o.key() if o.kind != 'ok' else 'error'), repr(o))
    elif text != head + can + b'\r\n\x1a':
        res.fail('e2e.list', 'entered %r, LIST shows %r, expected %r' % (
            head + ent, text, head + can))
    mem1 = peek_program(s)
    if mem1 != [(n, body_tokens)]:
        res.fail('e2e.memory', 'entered %r, memory holds %r, expected %r' % (
            head + ent, mem1, [(n, body_tokens)]))
    if text is not None and text.endswith(b'\r\n\x1a'):
        s.execute(b'NEW')
        o = s.execute_line(text[:-3])
        mem2 = peek_program(s)
        if o.kind != 'ok' or o.errors or mem2 != mem1:
            res.fail('e2e.roundtrip', 'listing %r re-entered: %r memory %r, was %r' % (
                text, o, mem2, mem1))
    s.execute(b'NEW')


def check_keyword(case, res):
    syntax, word, mask = case['syntax'], case['kw'], case['mask']
    s = sess(syntax)
    table = G.keyword_table(syntax)
    res.nt(True)
    typed = G.apply_mask(word, mask)
    res.label('syntax:' + syntax)
    if word not in table:
        # a reserved word of another dialect is an ordinary name here
        t = tokenise(s, b'10 ' + typed.encode())
        if t[5:] != word.encode():
            res.fail('keyword.foreign', '%s: %r tokenises to %s' % (syntax, typed, t.hex(' ')))
        return res
    token = table[word]
    # context that makes the word stand alone and canonical
    if word in G.OPERATOR_SYMBOLS:
        atoms = [['v', 'A', 0], ['o', word], ['v', 'B', 0]]
    elif word == "'":
        atoms = [['rem', "'", 0, 'x']]
    elif word == 'REM':
        atoms = [['rem', 'REM', mask, ' x']]
    elif word == 'DATA':
        atoms = [['data', mask, ' x']]
    elif word in ('TAB(', 'SPC('):
        atoms = [['k', 'PRINT', 0], ['sp', 1], ['k', word, mask], ['n', 'd', 1], ['p', ')']]
    elif word == 'FN':
        atoms = [['v', 'X', 0], ['o', '='], ['k', 'FN', mask], ['v', 'A', 0]]
    elif word == 'USR':
        atoms = [['v', 'X', 0], ['o', '='], ['k', 'USR', mask], ['n', 'd', 1], ['p', '('], ['n', 'd', 0],
                 ['p', ')']]
    else:
        atoms = [['k', word, mask]]
    ent, can, tok = G.render(atoms, syntax)
    t = tokenise(s, b'10 ' + ent)
    if t[5:] != tok:
        res.fail('keyword.tokenise', '%s: %r tokenises to %s, expected %s' % (
            syntax, ent, t[5:].hex(' '), tok.hex(' ')))
    if token not in t[5:]:
        res.fail('keyword.token-missing', '%s: %r -> %s lacks token %s' % (
            syntax, ent, t[5:].hex(' '), token.hex()))
    lst = detok(s, b'\x00\xc0\xde\x0a\x00' + tok)
    if lst != b'10 ' + can:
        res.fail('keyword.list', '%s: token %s lists as %r, expected %r' % (
            syntax, tok.hex(' '), lst, b'10 ' + can))
    # the bare token lists as exactly the reserved word
    bare = detok(s, b'\x00\xc0\xde\x0a\x00' + token)
    if bare != b'10 ' + word.encode() and word not in ("'", 'ELSE'):
        res.fail('keyword.bare', '%s: token %s lists as %r' % (syntax, token.hex(), bare))
    return res


def check_case(case):
    res = Result()
    u = case['u']
    if u == 'line':
        return check_line(case, res)
    if u == 'kw':
        return check_keyword(case, res)
    raise ValueError(u)


# ---------------------------------------------------------------------------------------------
# generators

LINENUMS = st.one_of(st.sampled_from([0, 1, 9, 10, 100, 255, 256, 1000, 6552, 6553, 9999, 10000,
                                      32767, 32768, 65528, 65529]),
                     st.integers(0, 65529), st.integers(1, 999).map(lambda x: x * 10))


def strat_lines():
    return G.st_syntax().flatmap(lambda syn: st.builds(
        lambda n, atoms, e2e: {'u': 'line', 'syntax': syn, 'n': n, 'atoms': atoms,
                               'e2e': e2e == 0},
        LINENUMS, G.st_line_atoms(syn), st.integers(0, 5)))


def gen_keywords(shard, nshards, tier, seed):
    cases = []
    for syn in G.SYNTAXES:
        for word in G.ALL_WORDS:
            n = len(word)
            masks = sorted({0, (1 << n) - 1, 0x5555 & ((1 << n) - 1), 0xaaaa & ((1 << n) - 1),
                            1, 1 << (n - 1)})
            for m in masks:
                if word in G.OPERATOR_SYMBOLS or word == "'":
                    if m:
                        continue
                cases.append({'u': 'kw', 'syntax': syn, 'kw': word, 'mask': m})
    return cases[shard::nshards]


def gen_literals(shard, nshards, tier, seed):
    cases = []

    def line(atoms, syn='advanced', n=10, e2e=False):
        atoms = G.canonical([['v', 'X', 0], ['o', '=']] + atoms)
        cases.append({'u': 'line', 'syntax': syn, 'n': n, 'atoms': atoms, 'e2e': e2e})
    ints = list(range(0, 301)) + [999, 1000, 4095, 4096, 9999, 10000, 16383, 16384, 32766, 32767]
    for v in ints:
        a = ['n', 'd', v] if v < 10 else ['n', 'b', v] if v < 256 else ['n', 'i', v]
        line([a], e2e=(v % 16 == 0))
        line([['o', '-'], a])
    hexes = sorted(set(list(range(0, 40)) + [255, 256, 4095, 4096, 32767, 32768, 65534, 65535] +
                       [1 << k for k in range(16)] + [(1 << k) - 1 for k in range(1, 17)]))
    for v in hexes:
        for form in range(3):
            line([['n', 'h', v, form]], e2e=(form == 1 and v % 8 == 0))
            line([['p', '('], ['n', 'o', v, form], ['p', ')']])
    for size, cls, pool in ((4, 's', G.single_pool()), (8, 'f', G.double_pool())):
        for i, (mant, e10) in enumerate(pool):
            for form in (range(8) if tier == 'thorough' else (0, i % 7 + 1)):
                line([['n', cls, mant, e10, form]], syn=G.SYNTAXES[i % 3],
                     e2e=((i + form) % 8 == 0))
    # jump numbers behind every jump keyword
    for kw in ['GOTO', 'GOSUB', 'RESTORE', 'RUN', 'RESUME', 'RETURN', 'LIST', 'LLIST', 'EDIT',
               'DELETE', 'AUTO', 'RENUM']:
        for j in (0, 1, 9, 10, 255, 256, 6552, 6553, 9999, 10000, 32767, 32768, 65529):
            for m in (0, 1, (1 << len(kw)) - 1):
                cases.append({'u': 'line', 'syntax': 'advanced', 'n': 65529, 'e2e': m == 1,
                              'atoms': [['k', kw, m], ['sp', 1], ['j', j]]})
    for j in (0, 10, 65529):
        for kw in ('THEN', 'GOTO'):
            cases.append({'u': 'line', 'syntax': 'advanced', 'n': 1, 'e2e': True, 'atoms': [
                ['k', 'IF', 0], ['sp', 1], ['v', 'A', 0], ['sp', 1], ['k', kw, 0], ['sp', 1],
                ['j', j], ['sp', 1], ['k', 'ELSE', 0], ['sp', 1], ['j', j]]})
        cases.append({'u': 'line', 'syntax': 'advanced', 'n': 1, 'e2e': True, 'atoms': [
            ['k', 'IF', 0], ['sp', 1], ['k', 'ERL', 0], ['o', '='], ['j', j], ['sp', 1],
            ['k', 'THEN', 0], ['sp', 1], ['k', 'RESUME', 0], ['sp', 1], ['j', j]]})
    return cases[shard::nshards]


def units(tier):
    return [
        Unit('keywords', 'enum', shards=2, gen=gen_keywords, exhaustive=True),
        Unit('literals', 'enum', shards=4, gen=gen_literals),
        Unit('lines', 'hyp', shards=16,
             examples={'quick': G.scaled(900), 'thorough': G.scaled(50000)},
             strategy=strat_lines),
    ]


REGRESSIONS = [
    # finding roundtrip.qmark-in-jump-context: '?' does not leave jump-number mode
    {'u': 'line', 'syntax': 'advanced', 'n': 10, 'e2e': False, 'atoms': [
        ['k', 'IF', 0], ['sp', 1], ['v', 'A', 0], ['sp', 1], ['k', 'THEN', 0], ['sp', 1],
        ['k', 'PRINT', -1], ['sp', 1], ['n', 'd', 5]]},
    {'u': 'line', 'syntax': 'advanced', 'n': 0, 'e2e': True, 'atoms': [
        ['k', 'PRINT', 3], ['sp', 1], ['n', 's', 390625, -8, 3], ['p', ';'],
        ['n', 'f', 15, 19, 5], ['p', ';'], ['n', 'h', 31, 1]]},
    {'u': 'line', 'syntax': 'pcjr', 'n': 65529, 'e2e': True, 'atoms': [
        ['k', 'NOISE', 21], ['sp', 1], ['n', 'd', 1], ['p', ','], ['n', 'b', 10], ['p', ','],
        ['n', 'i', 256], ['sp', 1], ['rem', "'", 0, ' caf\xe9']]},
    {'u': 'kw', 'syntax': 'advanced', 'kw': 'NOISE', 'mask': 0},
]
