"""
C04 - floating-point + - * / stay within a fixed error of the exact result; Overflow, Division by
zero and underflow-to-zero happen exactly where the statement puts them.

Reference: exact rational arithmetic on the decoded operand bytes (Fractions through vlib/mbf.py
in check_case; equivalent exact integer arithmetic from vlib/mbfnum.py in the bulk loops, with a
sample of every bulk loop re-judged through check_case).
"""
import random
from fractions import Fraction

from hypothesis import strategies as st

from vlib.core import Result, Unit
from vlib import mbf
from vlib import mbfnum as M

ID = 'C04'
LEVEL = 'exploration'
RULE = ("Operand pairs for each of + - * /: both single, both double, and mixed (integer/single/double in "
        "all 7 unequal-or-integer pairings, both orders: the C04 pair classes generated in the wider "
        "type and carried to the narrower operand type, independent pool values, and equal/adjacent "
        "values across types). Equal-type pairs come from a class mix: uniform "
        "random patterns; exponents differing by 0,1,2,3,7,8,9,23,24,25 (and 31..33, 55..57 for "
        "doubles) with shaped significands (random, sparse, dense, special low bytes, runs); "
        "near-cancellation (b = -a with 0-3 low bits flipped, optionally one binade apart); extreme "
        "exponents (1,2,3,253,254,255); results engineered to land within 3 binades of 2^127 and "
        "2^-128 (and of 2^-96 for doubles); dirty zeros. Values API with float errors in raise mode "
        "(bulk), and a Hypothesis sample through Session.evaluate (soft errors: message + signed "
        "maximum) and through a stored program line under ON ERROR GOTO. Non-trivial: the exact "
        "result is not representable in the operand type (rounding happened), or it is outside the "
        "representable range, or the divisor is zero; distinct = distinct (op, a, b).")
ASSUMPTIONS = [
    "the result must have the wider operand type (mixed-type operations promote before computing; "
    "integers promote to single) and the unit in the last place is that of the returned value in that "
    "format; integer op integer may return an Integer, judged as the equal single value",
    "exact result r with MAX < |r| < 2^127 (MAX = largest finite number): Overflow or a value within "
    "the error bound are both accepted; |r| >= 2^127 requires Overflow; |r| <= MAX forbids it",
    "result 0 is accepted iff |r| < 2^-128; a non-zero result for |r| < 2^-128 is accepted if it is "
    "within the error bound (i.e. r rounds to +-2^-128)",
    "0/0: Division by zero with either signed maximum",
    "soft mode (message on the console + signed maximum) is exercised through Session.evaluate in "
    "direct mode and, for the first 40 error cases of each bulk shard, through the values API with "
    "the console attached (message read back from the screen)",
    "double products with exact magnitude in [2^-128, 2^-96) returning 0 are reported under the "
    "separate key mul.double.underflow-band (defect found by reading, fixed in /repo by 9479e0ab; "
    "the key and its regression case stay), everything else about them is checked",
]
TECHNIQUE = "bulk sampling of operand-pair classes against exact rational arithmetic; Hypothesis sample through the parser"

OPNAME = {'+': 'add', '-': 'sub', '*': 'mul', '/': 'div'}
TWO127 = Fraction(2) ** 127
BAND_HI = Fraction(2) ** -96
SMAX = {(4, False): b'\xff\xff\x7f\xff', (4, True): b'\xff\xff\xff\xff',
        (8, False): b'\xff' * 6 + b'\x7f\xff', (8, True): b'\xff' * 8}


def check_case(case):
    res = Result()
    if case['u'] != 'arith':
        raise ValueError(case['u'])
    op, a, b, route = case['op'], M.unlat(case['a']), M.unlat(case['b']), case['route']
    # n = size of the type the property demands for the result: the wider operand type
    # (integers are promoted to single for + - * /)
    n = max(len(a), len(b), 4)
    both_int = len(a) == 2 and len(b) == 2
    x, y = mbf.decode(a), mbf.decode(b)
    tname = M.TNAME[n]
    key = '%s.%s.' % (OPNAME[op], tname)
    pairing = '%s-%s' % (M.TNAME[len(a)], M.TNAME[len(b)])
    where = '%s %s %s [%s %s]' % (M.hx(a), op, M.hx(b), pairing, route)
    res.label('%s.%s.%s' % (OPNAME[op], tname, route))
    if len(a) != len(b) or both_int:
        res.label('mixed.' + pairing)
    obs = M.binop_observe(op, a, b, route)
    if obs[0] == 'budget':
        res.inconclusive = True
        return res
    if obs[0] == 'escaped':
        res.fail(obs[1], where)
        return res
    if obs[0] == 'err-untrapped':
        res.fail(key + 'untrapped', '%s: error %d not trapped by ON ERROR' % (where, obs[1]))
        return res
    if op == '/' and y == 0:
        res.nt(True)
        res.label('division-by-zero')
        ok_max = [SMAX[(n, x < 0)]] if x != 0 else [SMAX[(n, False)], SMAX[(n, True)]]
        if obs[0] == 'err':
            if obs[1] != 11 or route in ('eval', 'api-soft'):
                res.fail(key + 'divzero', '%s -> error %r, expected Division by zero' % (where, obs[1]))
        elif obs[0] == 'soft':
            if obs[1] != 11 or obs[2] not in ok_max:
                res.fail(key + 'divzero', '%s -> message %d value %s' % (where, obs[1], M.hx(obs[2])))
        else:
            res.fail(key + 'divzero', '%s -> %s without Division by zero' % (where, M.hx(obs[1])))
        return res
    r = {'+': x + y, '-': x - y, '*': x * y}[op] if op != '/' else x / y
    mx = mbf.MAXVAL[n]
    inrange = abs(r) <= mx
    rep = r == 0 or (mbf.MINPOS <= abs(r) and inrange and mbf.representable(r, n))
    res.nt(not rep)
    if not inrange:
        res.label('exact-above-max')
    elif r != 0 and abs(r) < mbf.MINPOS:
        res.label('exact-below-min')
    elif not rep:
        res.label('rounded')
    else:
        res.label('exact-representable')
    if obs[0] in ('err', 'soft'):
        res.label('overflow')
        if obs[1] != 6 or inrange:
            res.fail(key + 'spurious-error', '%s -> error %d, exact result %r' % (where, obs[1], float(r)))
        elif obs[0] == 'soft' and obs[2] != SMAX[(n, r < 0)]:
            res.fail(key + 'soft-overflow-value', '%s -> soft overflow value %s' % (where, M.hx(obs[2])))
        elif obs[0] == 'err' and route in ('eval', 'api-soft'):
            res.fail(key + 'soft-overflow-value', '%s -> hard error in direct mode' % where)
        return res
    ret = obs[1]
    if len(ret) != n and not (both_int and len(ret) == 2):
        res.fail(key + 'type', '%s -> %s (%d bytes), the wider operand type has %d' % (
            where, M.hx(ret), len(ret), n))
        return res
    rv = mbf.decode(ret)
    if abs(r) >= TWO127:
        res.fail(key + 'overflow-missing', '%s -> %s, exact magnitude %r >= 2^127' % (
            where, M.hx(ret), float(abs(r))))
        return res
    if rv == 0:
        if abs(r) >= mbf.MINPOS:
            if op == '*' and n == 8 and abs(r) < BAND_HI:
                res.excluded += 1
                res.fail('mul.double.underflow-band', '%s -> 0, exact product %r is in [2^-128, 2^-96)' % (
                    where, float(r)))
            else:
                res.fail(key + 'underflow', '%s -> 0, exact result %r >= 2^-128' % (where, float(r)))
        elif r != 0:
            res.label('underflow-to-zero')
        return res
    # unit in the last place of the returned value *in the demanded result format*
    u = mbf.ulp(ret) if len(ret) == n else mbf.ulp_of_value(rv, n)
    e = abs(rv - r)
    if op in '+-':
        if e > 2 * u:
            res.fail(key + 'bound', '%s -> %s, error %.4f ulp > 2' % (where, M.hx(ret), float(e / u)))
    elif e >= u:
        res.fail(key + 'bound', '%s -> %s, error %.4f ulp >= 1' % (where, M.hx(ret), float(e / u)))
    if e * 2 > u:
        res.label('error-above-half-ulp')
    if rep and e != 0:
        res.label('representable-result-missed')     # allowed by the bound, e.g. 1048576!-.0625
    return res


# ---------------------------------------------------------------------------------------------
# bulk

def fast_verdict(op, a, b, obs, err):
    """-> (bad clause or None, non-trivial flag, label); result format = wider operand type."""
    n = max(len(a), len(b), 4)
    da, db = M.dy(a), M.dy(b)
    if op == '/' and db[0] == 0:
        return (None if err == 11 else 'divzero'), True, 'division-by-zero'
    r = M.exact(op, da, db)
    above = M.rcmp_abs(r, M.MAXD[n]) > 0
    zero = r[0][0] == 0
    below = (not zero) and M.rcmp_abs(r, M.MINPOSD) < 0
    if above:
        lab, nt = 'exact-above-max', True
    elif below:
        lab, nt = 'exact-below-min', True
    elif M.is_representable(r, n):
        lab, nt = 'exact-representable', False
    else:
        lab, nt = 'rounded', True
    if err is not None:
        return (None if (err == 6 and above) else 'spurious-error'), nt, lab
    if len(obs) != n:
        if not (len(obs) == 2 and len(a) == 2 and len(b) == 2):
            return 'type', nt, lab
        # integer result of integer operands: judge it in single format
        v = M.dy(obs)[0]
        obs = M.enc_int_value(v, 4)
    if M.rcmp_abs(r, M.TWO127) >= 0:
        return 'overflow-missing', nt, lab
    if obs[-1] == 0:
        if zero or below:
            return None, nt, lab
        if op == '*' and n == 8 and M.rcmp_abs(r, M.BAND_HI) < 0:
            return 'BAND', nt, lab
        return 'underflow', nt, lab
    do = M.dy(obs)
    if lab == 'exact-representable' and M.err_cmp(do, r, 0) > 0:
        lab = 'representable-result-missed'
    if op in '+-':
        bad = M.err_cmp(do, r, 2) > 0
    else:
        bad = M.err_cmp(do, r, 1) >= 0
    return ('bound' if bad else None), nt, lab


MIXED = [(2, 2), (2, 4), (4, 2), (2, 8), (8, 2), (4, 8), (8, 4)]


def narrow(rng, b, n):
    """Carry a float pattern to a narrower operand type keeping its exponent (or a nearby integer)."""
    if len(b) == n:
        return b
    if n == 4:
        return b[4:]
    d = M.dy(b)
    if rng.random() < 0.5 and M.dcmp(M.dabs(d), (40000, 0)) < 0:
        t = M.dround_half_away(d)
        return (max(-32768, min(32767, t)) & 0xffff).to_bytes(2, 'little')
    return M.gen_int(rng)[0]


def gen_mixed(rng, op):
    """(a, b, class): operands of different types (all pairings, both orders) or two integers."""
    na, nb = rng.choice(MIXED)
    nw = max(na, nb, 4)
    c = rng.randrange(10)
    if c < 5:
        a, b, cls = M.gen_pair(rng, nw, op)
        return narrow(rng, a, na), narrow(rng, b, nb), cls
    if c < 8:
        return M.gen_value(rng, na)[0], M.gen_value(rng, nb)[0], 'independent'
    a = M.gen_value(rng, na)[0]
    b = M.carry_to(a, nb, rng)
    if rng.random() < 0.5:
        b = M.neighbour(b, rng.choice((1, -1, 2, -2)))
    return a, b, 'related'


def run_pairs(n):
    """n = 4 or 8: both operands of that type; n = 0: mixed-type operands."""
    def run(shard, nshards, tier, seed, ev):
        rng = random.Random(seed)
        count = (12000 if tier == 'quick' else 500000)
        if n == 0:
            count = (10000 if tier == 'quick' else 400000)
        A = M.api()
        mk, BErr, binop = A.mk, A.BASICError, A.binop
        tname = M.TNAME[n] if n else 'mixed'
        seen = set()
        labels = {}
        cnt = nt = 0
        soft_left = 40
        for i in range(count):
            if (i & 255) == 0:
                M.arm(180.0)
            for op in '+-*/':
              try:
                  a, b, cls = M.gen_pair(rng, n, op) if n else gen_mixed(rng, op)
                  cnt += 1
                  try:
                      obs = bytes(binop[op](mk(a), mk(b)).to_bytes())
                      err = None
                  except BErr as e:
                      obs, err = None, e.err
                  except Exception as e:       # noqa: B902
                      ev.fail(M.frame_key(e), {'u': 'arith', 'op': op, 'a': M.lat(a), 'b': M.lat(b),
                                               'route': 'api'}, '%s %s %s' % (M.hx(a), op, M.hx(b)))
                      continue
                  bad, isnt, lab = fast_verdict(op, a, b, obs, err)
                  if err is not None and soft_left > 0:
                      # the same operation with the console attached: message + signed maximum
                      soft_left -= 1
                      scase = {'u': 'arith', 'op': op, 'a': M.lat(a), 'b': M.lat(b), 'route': 'api-soft'}
                      ev.record(scase, check_case(scase))
                  k = '%s.%s.%s' % (OPNAME[op], tname, lab)
                  labels[k] = labels.get(k, 0) + 1
                  if not n:
                      k = 'mixed.%s-%s' % (M.TNAME[len(a)], M.TNAME[len(b)])
                      labels[k] = labels.get(k, 0) + 1
                  k = 'class.' + cls
                  labels[k] = labels.get(k, 0) + 1
                  if err == 6:
                      labels['overflow.' + tname] = labels.get('overflow.' + tname, 0) + 1
                  if isnt:
                      h = (op, a, b)
                      if h not in seen and len(seen) < 1000000:
                          seen.add(h)
                          nt += 1
                  case = None
                  if bad:
                      case = {'u': 'arith', 'op': op, 'a': M.lat(a), 'b': M.lat(b), 'route': 'api'}
                      if bad == 'BAND':
                          ev.excluded += 1
                          ev.fail('mul.double.underflow-band', case, '%s * %s -> 0' % (M.hx(a), M.hx(b)))
                      else:
                          ev.fail('%s.%s.%s' % (OPNAME[op], M.TNAME[max(len(a), len(b), 4)], bad), case,
                                  '%s %s %s -> %s err=%r' % (M.hx(a), op, M.hx(b), obs and M.hx(obs), err))
                  if (cnt % 499) == 0:
                      case = case or {'u': 'arith', 'op': op, 'a': M.lat(a), 'b': M.lat(b), 'route': 'api'}
                      slow = check_case(case)
                      if bool(slow.fails) != bool(bad):
                          ev.harness_errors.append('reference models disagree on %r: fast=%r slow=%r' % (
                              case, bad, slow.fails))
                      if isnt:
                          ev.sample(case)
              except M.Hang:
                ev.inconclusive += 1
                labels['wall-limit'] = labels.get('wall-limit', 0) + 1
                M.arm(180.0)
        M.disarm()
        ev.count(cnt, nontrivial=nt)
        for k, v in labels.items():
            ev.labels[k] += v
    return run


# ---------------------------------------------------------------------------------------------
# Hypothesis sample through the parser

def strat_arith():
    def build(op, n, mode, sd, raw_a, raw_b, route):
        if mode == 0:
            a, b = raw_a[:n], raw_b[:n]
        elif mode in (1, 2):
            a, b, _ = gen_mixed(random.Random(sd), op)
        else:
            a, b, _ = M.gen_pair(random.Random(sd), n, op)
        return {'u': 'arith', 'op': op, 'a': M.lat(a), 'b': M.lat(b), 'route': route}
    return st.builds(build, st.sampled_from('+-*/'), st.sampled_from([4, 8]),
                     st.integers(0, 5), st.integers(0, 2 ** 40),
                     st.binary(min_size=8, max_size=8), st.binary(min_size=8, max_size=8),
                     st.sampled_from(['eval', 'eval', 'prog']))


def units(tier):
    return [
        Unit('single-pairs', 'bulk', shards=16, run=run_pairs(4)),
        Unit('double-pairs', 'bulk', shards=16, run=run_pairs(8)),
        Unit('mixed-pairs', 'bulk', shards=16, run=run_pairs(0)),
        Unit('arith-eval', 'hyp', shards=16, examples={'quick': 500, 'thorough': 20000},
             strategy=strat_arith),
    ]


def _a(op, ha, hb, route='api'):
    return {'u': 'arith', 'op': op, 'a': M.lat(bytes.fromhex(ha)), 'b': M.lat(bytes.fromhex(hb)),
            'route': route}


REGRESSIONS = [
    # fixed 9479e0ab: 1D-31 * 1# = 0 (Double.imul used the single-precision underflow threshold)
    _a('*', 'fd434b2cb3ce011a', '0000000000000081'),
    _a('*', '0000000000000041', '0000000000000041', 'eval'),      # 2^-64 * 2^-64 = 2^-128
    _a('*', '00000041', '00000041'),                              # same in single: must be 2^-128
    _a('*', '000000ff', '00000082', 'eval'),                      # soft overflow
    _a('*', '000000ff', '00008082', 'prog'),                      # trapped overflow
    _a('/', '00000081', '01020300', 'eval'),                      # division by a dirty zero
    _a('/', '0000000000008081', '0000000000000000', 'prog'),
    _a('+', 'ffff7fff', 'ffff7fe7'),                              # MAX + half ulp
    _a('-', '00000001', '01000001'),                              # smallest difference underflows
    _a('+', '00000081', '00008081'),                              # exact cancellation
    # 1048576!-.0625 returns 1048576 although 1048575.9375 is representable: 0.5 ulp, inside the bound
    _a('-', '00000095', '0000007d', 'eval'),
    # third-wave seeded change: S!*D# / I%*D# must be computed and returned in double precision
    _a('*', '00000081', '15cd5b07d2ff1d81'),                      # 1! * 1.2345678901234#
    _a('*', '0300', '15cd5b07d2ff1d81', 'eval'),                  # 3% * double
    _a('*', '15cd5b07d2ff1d81', '00004082'),                      # D# * S!
    _a('/', '0100', '0000000000004082'),                          # 1% / 3#
    _a('+', 'ff7f', '0100'),                                      # 32767% + 1% = 32768 (single)
    _a('/', '0700', '0200', 'prog'),                              # 7% / 2% = 3.5
]

KILLS = [
    'seeded/C04c (values.mul takes the precision from the left operand only) => mul.double.type, mul.double.spurious-error (mixed-pairs); add/mul.double.bound through the parser',
    'mirrored: values.mul takes the precision from the right operand only => mul.double.type, mul.double.spurious-error',
    'values.div takes the precision from the left operand only => div.double.type, div.double.spurious-error',
    'values.add rounds a Double right operand to the Single left operand => add.double.type (mixed-pairs); add.double.bound (1e9 double ulps) and add.double.soft-overflow-value through arith-eval',
    'seeded/C04 (0/0 returns 0 without Division by zero) => div.single.divzero',
    'numbers.Float.imul: revert 9479e0ab (`lexp < -31` for doubles too) => mul.double.underflow-band (12790 hits/quick)',
    'numbers.Float.imul: `lexp <= -(self._shift + 8)` (flush one binade more) => mul.double.underflow-band',
    'numbers.Float._normalise: truncation instead of round-half-even => div/sub/mul .bound (single and double)',
    'numbers.Float._check_limits: `exp >= 255` => *.spurious-error (Overflow for exact results below the maximum)',
    'numbers.Float._normalise: `exp <= 1` => add/sub/div.single.underflow',
    'numbers.Float._check_limits: signed maximum swapped => *.soft-overflow-value (api-soft route of the bulk units, and arith-eval)',
    'numbers.Float.idiv: signed maximum of Division by zero swapped => div.*.divzero (arith-eval)',
    'SURVIVES (inside the stated bound): _add_den sticky bit `man |= 1` removed - worst error stays 0.5+2^-8 ulp < 2 ulp',
    'SURVIVES (inside the stated bound): imul rounding-quirk mask 0xfe -> 0xf0 - error stays below 1 ulp',
]
