"""
C35 - the displayed picture always equals the emulator's screen state.

A recording interface is attached with Session.attach(); every video signal the interpreter emits
is applied to vlib.screenmodel.ReferenceDisplay (a reference consumer with the semantics of
interface/video_sdl2.py for pixels and of the text plugins for characters). After every operation
of a generated history the reference display is compared with what the interpreter reports for the
visible page: Session.get_pixels(), Session.get_chars(as_type=str) and Session.get_chars() (bytes;
compared on printable ASCII so that no codepage table is needed).

The oracle predicts nothing about *what* is drawn: BASIC errors, clipped coordinates, ignored
statements are all fine - only "display == reported state" is asserted, so every statement can be
generated freely. suspend -> resume -> attach must redraw the same picture on a fresh display.
"""
import os
import re
import logging

from hypothesis import strategies as st

from vlib.core import Result, Unit
from vlib import harness
from vlib import screenmodel

ID = 'C35'
LEVEL = 'exploration'
TECHNIQUE = ("Hypothesis operation lists; differential: reference consumer of the recorded video "
             "signals vs. Session.get_pixels()/get_chars() after every operation, including "
             "suspend/resume/attach redraw")
RULE = ("Histories of 6..40 operations on adapters cga/ega/vga/tandy/pcjr/hercules/olivetti/mda: "
        "PRINT of strings with printable and control characters (7-13, 28-31) ending in newline, "
        "';' or ','; CLS [0|1|2]; COLOR with non-black backgrounds and borders; LOCATE; VIEW PRINT; "
        "WIDTH 20/40/80; SCREEN mode/colorswitch/active page/visible page; PCOPY; KEY ON/OFF; "
        "PSET/LINE/box/CIRCLE/PAINT-in-a-box/DRAW/GET+PUT/VIEW/WINDOW/PALETTE; POKE into video "
        "memory; interactive line input with typed keys (insert mode, Ctrl+J line feed, typing past "
        "the right margin: the only source of downward scrolling); suspend->resume->attach. "
        "Non-trivial: the history contains a scroll signal, or a mode/page switch after output; "
        "distinct = distinct operation list.")
ASSUMPTIONS = [
    "cursor, palette, border, caption signals are consumed but not compared (not in the statement)",
    "text cells are compared as unicode (get_chars(as_type=str)) and, for printable ASCII only, as "
    "bytes (get_chars()); NUL and blank are not distinguished (the text plugins show both as blank)",
    "default codepage 437, no DBCS; fonts are the built-in 8-pixel font stretched by the emulator",
    "the reference display pastes/clears/scrolls exactly like video_sdl2.py (clipping at the bottom "
    "and right edge only); a history stops at its first divergence",
]

logging.disable(logging.WARNING)

ADAPTERS = {
    'cga': ('advanced', [0, 1, 2]),
    'ega': ('advanced', [0, 1, 2, 7, 8, 9]),
    'vga': ('advanced', [0, 1, 2, 7, 8, 9]),
    'tandy': ('tandy', [0, 1, 2, 3, 4, 5, 6]),
    'pcjr': ('pcjr', [0, 1, 2, 3, 4, 5, 6]),
    'hercules': ('advanced', [0, 3]),
    'olivetti': ('advanced', [0, 1, 2, 3]),
    'mda': ('advanced', [0]),
}


def _wrap_session(session, sandbox, budget):
    """harness.Sess around an existing (resumed) Session without creating a new one."""
    h = harness.Sess.__new__(harness.Sess)
    h._own_sandbox = False
    h.sandbox = sandbox
    h.kwargs = {}
    h.s = session
    h.impl = session._impl
    h.budget = budget
    h.calls = 0
    h.inject = None
    h._install_budget()
    return h


def _num(v):
    return b'' if v is None else b'%d' % v


def build_statement(op, sess):
    """-> (bytes statement or None, dict of string variables to set first)."""
    k = op['op']
    disp = sess.impl.display
    pw, ph = disp.mode.pixel_width, disp.mode.pixel_height

    def X(v):
        return v % (pw + 40) - 20

    def Y(v):
        return v % (ph + 40) - 20
    if k == 'print':
        return b'PRINT A$' + op.get('end', '').encode(), {'A$': op['s'].encode('latin-1')}
    if k == 'cls':
        return b'CLS' + (b'' if op.get('arg') is None else b' %d' % op['arg']), {}
    if k == 'color':
        parts = [_num(op.get('f')), _num(op.get('b')), _num(op.get('bd'))]
        while parts and parts[-1] == b'':
            parts.pop()
        return b'COLOR ' + b','.join(parts), {}
    if k == 'locate':
        return b'LOCATE %s,%s' % (_num(op.get('r')), _num(op.get('c'))), {}
    if k == 'view':
        if op.get('a') is None:
            return b'VIEW PRINT', {}
        return b'VIEW PRINT %d TO %d' % (op['a'], op['b']), {}
    if k == 'width':
        return b'WIDTH %d' % op['w'], {}
    if k == 'screen':
        parts = [_num(op.get('m')), _num(op.get('cs')), _num(op.get('ap')), _num(op.get('vp'))]
        while parts and parts[-1] == b'':
            parts.pop()
        return b'SCREEN ' + b','.join(parts), {}
    if k == 'pcopy':
        return b'PCOPY %d,%d' % (op['a'], op['b']), {}
    if k == 'key':
        return b'KEY ON' if op['on'] else b'KEY OFF', {}
    if k == 'pset':
        return b'PSET (%d,%d),%d' % (X(op['x']), Y(op['y']), op['c']), {}
    if k == 'line':
        return b'LINE (%d,%d)-(%d,%d),%d%s' % (
            X(op['x']), Y(op['y']), X(op['x2']), Y(op['y2']), op['c'],
            {'': b'', 'B': b',B', 'BF': b',BF'}[op.get('st', '')]), {}
    if k == 'circle':
        return b'CIRCLE (%d,%d),%d,%d' % (X(op['x']), Y(op['y']), op['r'], op['c']), {}
    if k == 'paintbox':
        x, y = abs(X(op['x'])) % max(1, pw - 40), abs(Y(op['y'])) % max(1, ph - 30)
        w, h = 3 + op['w'] % 30, 3 + op['h'] % 20
        return b'LINE (%d,%d)-(%d,%d),%d,B:PAINT (%d,%d),%d,%d' % (
            x, y, x + w, y + h, op['c'], x + 1, y + 1, op['c2'], op['c']), {}
    if k == 'draw':
        return b'DRAW A$', {'A$': op['s'].encode('latin-1')}
    if k == 'getput':
        x, y = abs(X(op['x'])) % max(1, pw - 40), abs(Y(op['y'])) % max(1, ph - 30)
        w, h = 1 + op['w'] % 24, 1 + op['h'] % 16
        return b'GET (%d,%d)-(%d,%d),G%%:PUT (%d,%d),G%%,%s' % (
            x, y, x + w, y + h, X(op['x2']), Y(op['y2']),
            [b'XOR', b'PSET', b'PRESET', b'OR', b'AND'][op['act'] % 5]), {}
    if k == 'gview':
        if op.get('x') is None:
            return b'VIEW', {}
        x, y = abs(X(op['x'])) % max(1, pw - 20), abs(Y(op['y'])) % max(1, ph - 20)
        return b'VIEW (%d,%d)-(%d,%d),%s,%s' % (
            x, y, min(pw - 1, x + 5 + op['w'] % 200), min(ph - 1, y + 5 + op['h'] % 150),
            _num(op.get('fill')), _num(op.get('bd'))), {}
    if k == 'window':
        if op.get('x') is None:
            return b'WINDOW', {}
        return b'WINDOW (%d,%d)-(%d,%d)' % (op['x'], op['y'], op['x'] + 1 + op['w'],
                                            op['y'] + 1 + op['h']), {}
    if k == 'palette':
        if op.get('a') is None:
            return b'PALETTE', {}
        return b'PALETTE %d,%d' % (op['a'], op['c']), {}
    if k == 'poke':
        seg = disp.mode.memorymap._video_segment if hasattr(
            disp.mode.memorymap, '_video_segment') else 0xb800
        return b'DEF SEG=%d:POKE %d,%d:DEF SEG' % (seg, op['addr'], op['v']), {}
    if k == 'list':
        return b'PRINT %s' % op['expr'].encode('latin-1'), {}
    raise ValueError(k)


class Run(object):

    def __init__(self, case, res):
        self.case = case
        self.res = res
        video = case.get('video', 'cga')
        syntax = ADAPTERS[video][0]
        self.sandbox = harness.Sandbox()
        self.sess = harness.Sess(sandbox=self.sandbox, video=video, syntax=syntax, budget=4000)
        self.iface = screenmodel.RecordingInterface()
        self.disp = screenmodel.ReferenceDisplay()
        self.sess.s.attach(self.iface)
        self.sess.execute(b'DIM G%(300)')        # sprite buffer for the GET/PUT operation
        self.nontrivial = False
        self.output_seen = False
        self.pcopy_seen = False
        self.step_signals = []

    def close(self):
        try:
            self.sess.close()
        finally:
            self.sandbox.close()

    def drain(self):
        events = self.iface.video.drain()
        self.step_signals = events
        for e in events:
            self.disp.apply(e)
            if e.event_type == 'scroll':
                self.nontrivial = True
                self.res.label('scroll-up' if e.params[0] == -1 else 'scroll-down')
                if e.params[3] != 0:
                    self.res.label('scroll-nonblack-background')
            elif e.event_type == 'set_mode':
                if self.output_seen:
                    self.nontrivial = True
            elif e.event_type == 'clear_rows' and e.params[0] != 0:
                self.res.label('clear-nonblack-background')

    def sigclass(self):
        names = [e.event_type for e in self.step_signals]
        for n in ('scroll', 'set_mode', 'clear_rows', 'update'):
            if n in names:
                return n
        return 'no-signal'

    def compare(self, idx, desc):
        """-> True if display and emulator agree."""
        res, disp, s = self.res, self.disp, self.sess.s
        mode = 'text' if self.sess.impl.display.mode.is_text_mode else 'gfx'
        where = 'step %d %s (%s mode, signals: %s)' % (
            idx, desc, mode, ','.join(sorted({e.event_type for e in self.step_signals})) or 'none')
        if disp.problems:
            res.fail('signal.malformed.' + self.sigclass(), where + ': ' + disp.problems[0])
            return False
        if not disp.mode_set:
            res.fail('signal.no-set-mode', where)
            return False
        d = disp.diff_pixels(s.get_pixels())
        if d:
            key = 'pixels.%s.%s' % (mode, self.sigclass())
            scrolls = [e for e in self.step_signals if e.event_type == 'scroll']
            if mode == 'text' and scrolls and any(e.params[3] != 0 for e in scrolls):
                # own bucket: vacated row after a scroll with a non-black background
                key = 'scroll.background.pixels'
            res.fail(key, where + ': ' + d)
            return False
        t = disp.diff_text(s.get_chars(as_type=str))
        if t:
            key = 'text.%s.%s' % (mode, self.sigclass())
            if self.pcopy_seen:
                key = 'text.after-pcopy'
            res.fail(key, where + ': ' + t)
            return False
        # bytes view of the characters, on printable ASCII
        rows = s.get_chars()
        for r, (brow, urow) in enumerate(zip(rows, disp.text)):
            for c, (b, u) in enumerate(zip(brow, urow)):
                o = ord(b)
                ua = len(u) == 1 and 32 <= ord(u) <= 126
                if (32 <= o <= 126 or ua) and (len(u) != 1 or ord(u) != o):
                    key = 'chars-bytes.%s.%s' % (mode, self.sigclass())
                    if any(e.event_type == 'scroll' and e.params[0] == 1
                           for e in self.step_signals):
                        # own bucket: bytes view after a downward scroll
                        key = 'chars-bytes.scroll-down'
                        if any(e.event_type == 'scroll' and e.params[0] == 1
                               and e.params[1] > e.params[2] for e in self.step_signals):
                            # own bucket: scroll_down called with from_row > to_row
                            key = 'chars-bytes.scroll-down.empty-range'
                    elif self.pcopy_seen:
                        # own bucket: bytes and unicode views of a page after PCOPY
                        key = 'chars-bytes.after-pcopy'
                    res.fail(key, where + ': row %d col %d: get_chars() reports %r but the '
                             'display shows %r; reported row %r, displayed row %r' % (
                                 r + 1, c + 1, b, u, b''.join(brow).rstrip(),
                                 u''.join(urow).rstrip()))
                    return False
        return True

    def outcome_ok(self, o, desc, idx):
        if o.kind == 'budget':
            self.res.inconclusive = True
            self.res.label('budget')
            return False
        if o.kind == 'exit':
            self.res.label('exit')
            return False
        if o.kind != 'ok':
            key = 'escaped.%s@%s' % (o.exc, o.frame)
            if desc.startswith('DRAW') and re.search(r'C\s*(\d{3,}|2[5-9]\d|[3-9]\d)', desc):
                # own bucket: DRAW with a colour number beyond the attribute range
                key = 'draw.colour-out-of-range.' + key
            self.res.fail(key, 'step %d %s: %r\n%s' % (idx, desc, o, o.tb))
            return False
        if o.errors:
            self.res.label('basic-error')
        return True

    def do_resume(self, idx):
        """suspend -> resume -> attach a fresh interface; the new display must show the same."""
        before_px = self.sess.s.get_pixels()
        before_ch = self.sess.s.get_chars()
        path = self.sandbox.path('session.state')
        self.sess.remove_budget()
        try:
            self.sess.s.suspend(path)
            new = type(self.sess.s).resume(path)
        except BaseException as e:      # noqa: B902
            if isinstance(e, (KeyboardInterrupt, SystemExit, MemoryError)):
                raise
            self.res.fail('resume.escaped.%s' % type(e).__name__, 'step %d: %r' % (idx, e))
            return False
        try:
            self.sess.s.close()
        except Exception:
            pass
        self.sess = _wrap_session(new, self.sandbox, 4000)
        self.iface = screenmodel.RecordingInterface()
        self.disp = screenmodel.ReferenceDisplay()
        new.attach(self.iface)
        self.drain()
        self.res.label('resume')
        if not self.compare(idx, 'suspend/resume/attach'):
            return False
        if new.get_pixels() != before_px or new.get_chars() != before_ch:
            self.res.fail('resume.state-changed', 'step %d: pixels or characters differ after '
                          'suspend/resume' % idx)
            return False
        return True

    def run(self):
        res = self.res
        self.drain()
        if not self.compare(-1, 'attach'):
            return
        for idx, op in enumerate(self.case['ops']):
            k = op['op']
            if k == 'resume':
                if not self.do_resume(idx):
                    return
                continue
            if k == 'input':
                keys = op['keys']
                desc = 'LINE INPUT with keys %r' % keys
                self.sess.s.press_keys(keys + u'\r')
                o = self.sess.execute(b'LINE INPUT A$')
                res.label('op-input')
            else:
                text, variables = build_statement(op, self.sess)
                for name, val in variables.items():
                    self.sess.set(name, val[:255])
                desc = text.decode('latin-1') + (
                    ' with %r' % (variables,) if variables else '')
                o = self.sess.execute(text)
                res.label('op-' + k)
            if k in ('print', 'input', 'line', 'circle', 'pset'):
                self.output_seen = True
            if k == 'pcopy' and not o.errors:
                self.pcopy_seen = True
            ok = self.outcome_ok(o, desc, idx)
            self.drain()
            if not ok:
                return
            if k == 'screen' and not o.errors and self.output_seen and (
                    op.get('ap') is not None or op.get('vp') is not None):
                self.nontrivial = True
                res.label('page-switch')
            if not self.compare(idx, desc):
                return
        d = self.sess.impl.display
        res.label('end-%s' % ('text' if d.mode.is_text_mode else 'gfx'))
        res.nt(self.nontrivial)


def check_case(case):
    res = Result()
    res.label('video-' + case.get('video', 'cga'))
    run = Run(case, res)
    try:
        run.run()
    finally:
        res.nt(run.nontrivial)
        run.close()
    return res


# ---------------------------------------------------------------------------------------------
# generators

CTRL = [7, 8, 9, 10, 11, 12, 13, 28, 29, 30, 31]


def weighted(table, slots):
    # one_of() drops repeated branches, so weights go through sampled_from + flatmap
    return st.sampled_from(slots).flatmap(lambda k: table[k])


def strat_text():
    printable = st.sampled_from([chr(c) for c in range(32, 127)] + [chr(c) for c in (
        128, 176, 219, 223, 254, 255, 1, 2, 14)])
    ctrl = st.sampled_from([chr(c) for c in CTRL])
    ch = weighted({'p': printable, 'c': ctrl}, ['p'] * 12 + ['c'])
    short = st.text(alphabet=ch, min_size=0, max_size=30)
    longs = st.builds(lambda a, n, b: (a * n)[:250] + b, st.text(alphabet=printable, min_size=1,
                                                                 max_size=8),
                      st.integers(5, 60), short)
    return st.one_of(short, short, longs)


def strat_op(modes, gfx_weight):
    i = st.integers
    col = st.one_of(i(0, 3), i(0, 15), i(0, 31))
    optcol = st.one_of(st.none(), col)
    xs, ys = i(0, 800), i(0, 500)
    table = {
        'print': st.builds(lambda s, e: {'op': 'print', 's': s, 'end': e}, strat_text(),
                           st.sampled_from(['', '', ';', ','])),
        'lines': st.builds(lambda n, s: {'op': 'print', 's': '\r'.join([s] * n), 'end': ''},
                           i(2, 8), st.text(alphabet=st.sampled_from(list('abcxyz0189 #')),
                                            max_size=12)),
        'cls': st.builds(lambda a: {'op': 'cls', 'arg': a}, st.sampled_from([None, None, 0, 1, 2])),
        'color': st.builds(lambda f, b, bd: {'op': 'color', 'f': f, 'b': b, 'bd': bd},
                           optcol, st.one_of(st.none(), i(0, 7), i(0, 15)),
                           st.one_of(st.none(), st.none(), i(0, 15))),
        'locate': st.builds(lambda r, c: {'op': 'locate', 'r': r, 'c': c},
                            st.one_of(st.none(), i(1, 25), st.sampled_from([1, 23, 24, 25])),
                            st.one_of(st.none(), i(1, 80), st.sampled_from([1, 39, 40, 79, 80]))),
        'view': st.one_of(
            st.builds(lambda a, h: {'op': 'view', 'a': a, 'b': min(24, a + h)}, i(1, 24), i(0, 6)),
            st.just({'op': 'view', 'a': None})),
        'width': st.builds(lambda w: {'op': 'width', 'w': w}, st.sampled_from([40, 80, 80, 20])),
        'screen': st.one_of(
            st.builds(lambda m: {'op': 'screen', 'm': m}, st.sampled_from(modes)),
            st.builds(lambda m, cs, ap, vp: {'op': 'screen', 'm': m, 'cs': cs, 'ap': ap, 'vp': vp},
                      st.one_of(st.none(), st.sampled_from(modes)), st.one_of(st.none(), i(0, 1)),
                      st.one_of(st.none(), i(0, 3)), st.one_of(st.none(), i(0, 3)))),
        'page': st.builds(lambda ap, vp: {'op': 'screen', 'm': None, 'cs': None, 'ap': ap, 'vp': vp},
                          i(0, 3), st.one_of(st.none(), i(0, 3))),
        'pcopy': st.builds(lambda a, b: {'op': 'pcopy', 'a': a, 'b': b}, i(0, 3), i(0, 3)),
        'key': st.builds(lambda on: {'op': 'key', 'on': on}, st.booleans()),
        'pset': st.builds(lambda x, y, c: {'op': 'pset', 'x': x, 'y': y, 'c': c}, xs, ys, col),
        'line': st.builds(lambda x, y, x2, y2, c, s: {'op': 'line', 'x': x, 'y': y, 'x2': x2,
                                                      'y2': y2, 'c': c, 'st': s},
                          xs, ys, xs, ys, col, st.sampled_from(['', '', 'B', 'BF'])),
        'circle': st.builds(lambda x, y, r, c: {'op': 'circle', 'x': x, 'y': y, 'r': r, 'c': c},
                            xs, ys, i(0, 120), col),
        'paintbox': st.builds(lambda x, y, w, h, c, c2: {'op': 'paintbox', 'x': x, 'y': y, 'w': w,
                                                         'h': h, 'c': c, 'c2': c2},
                              xs, ys, i(0, 40), i(0, 40), i(1, 3), i(0, 15)),
        'draw': st.builds(lambda s: {'op': 'draw', 's': s}, st.text(
            alphabet=st.sampled_from(list('UDLREFGHMBN0123456789,+-;CSA ')), max_size=20)),
        'getput': st.builds(lambda x, y, w, h, x2, y2, a: {'op': 'getput', 'x': x, 'y': y, 'w': w,
                                                           'h': h, 'x2': x2, 'y2': y2, 'act': a},
                            xs, ys, i(0, 30), i(0, 20), xs, ys, i(0, 4)),
        'gview': st.one_of(
            st.builds(lambda x, y, w, h, f, b: {'op': 'gview', 'x': x, 'y': y, 'w': w, 'h': h,
                                                'fill': f, 'bd': b},
                      xs, ys, i(0, 300), i(0, 200), optcol, optcol),
            st.just({'op': 'gview', 'x': None})),
        'window': st.one_of(
            st.builds(lambda x, y, w, h: {'op': 'window', 'x': x, 'y': y, 'w': w, 'h': h},
                      i(-100, 100), i(-100, 100), i(0, 1000), i(0, 1000)),
            st.just({'op': 'window', 'x': None})),
        'palette': st.one_of(
            st.builds(lambda a, c: {'op': 'palette', 'a': a, 'c': c}, i(0, 15), i(0, 63)),
            st.just({'op': 'palette', 'a': None})),
        'poke': st.builds(lambda a, v: {'op': 'poke', 'addr': a, 'v': v},
                          st.one_of(i(0, 4200), i(0, 16383), i(0, 32767)), i(0, 255)),
        'input': st.builds(lambda k: {'op': 'input', 'keys': k}, strat_keys()),
        'resume': st.just({'op': 'resume'}),
    }
    slots = (['print'] * 12 + ['lines'] * 4 + ['cls'] * 3 + ['color'] * 4 + ['locate'] * 4
             + ['view'] * 2 + ['width'] + ['screen'] * 2 + ['page'] * 3 + ['pcopy'] * 2 + ['key']
             + ['poke'] * 2 + ['input'] * 4)
    gfx = ['pset', 'line', 'line', 'circle', 'paintbox', 'draw', 'getput', 'gview', 'window',
           'palette']
    slots = slots + gfx * gfx_weight
    return weighted(table, slots)


def strat_keys():
    """Typed keys for interactive input: text, insert mode, Ctrl+J, cursor keys, long lines."""
    plain = st.text(alphabet=st.sampled_from(list('abcdefgh XYZ0123')), min_size=0, max_size=12)
    special = st.sampled_from([
        u'\n', u'\n', u'\n', u'\n', u'\n', u'\x00\x52', u'\x00\x52', u'\x00\x48', u'\x00\x50', u'\x00\x4b', u'\x00\x4d',
        u'\x00\x47', u'\x00\x4f', u'\x08', u'\x00\x53', u'\t', u'\x1b', u'\x05', u'\x0b', u'\x0c',
    ])
    longrun = st.builds(lambda c, n: c * n, st.sampled_from(list('mw-')), st.integers(30, 100))
    piece = weighted({'p': plain, 's': special, 'l': longrun}, ['p'] * 3 + ['s'] * 4 + ['l'] * 2)
    return st.lists(piece, min_size=1, max_size=6).map(u''.join)


def _with_resume(ops, pos):
    """Insert a suspend/resume step in about a quarter of the histories (it is expensive)."""
    if pos is None:
        return ops
    ops = list(ops)
    ops.insert(pos % (len(ops) + 1), {'op': 'resume'})
    return ops


def strat_case(video, gfx_weight=1):
    modes = ADAPTERS[video][1]
    graphics = [m for m in modes if m != 0]
    prefix = st.sampled_from(
        [[], [], [{'op': 'color', 'f': 7, 'b': 1, 'bd': None}], [{'op': 'width', 'w': 40}],
         [{'op': 'key', 'on': True}]]
        + [[{'op': 'screen', 'm': m}] for m in graphics] * 2)
    respos = st.one_of(st.none(), st.none(), st.none(), st.integers(0, 40))
    return st.builds(lambda pre, ops, rp: {'video': video, 'ops': pre + _with_resume(ops, rp)},
                     prefix, st.lists(strat_op(modes, gfx_weight), min_size=6, max_size=40),
                     respos)


def strat_scroll_case():
    """Text output near the bottom with coloured backgrounds and typed input: scrolling both ways."""
    def build(v, w40, b, bottom, ops):
        pre = [{'op': 'width', 'w': 40}] if w40 else []
        pre += [{'op': 'color', 'f': 14, 'b': b, 'bd': None},
                {'op': 'print', 's': '\r'.join('row %d' % k for k in range(1, 25)), 'end': ';'},
                {'op': 'locate', 'r': bottom, 'c': 1 + 7 * (b % 2)}]
        return {'video': v, 'ops': pre + ops}
    return st.builds(build, st.sampled_from(['cga', 'ega', 'vga', 'tandy', 'hercules', 'mda']),
                     st.booleans(), st.integers(0, 7), st.integers(2, 24),
                     st.lists(strat_op([0], 0), min_size=6, max_size=24))


def units(tier):
    # one unit per adapter so that every adapter is covered whatever the seed
    us = []
    for video in ('cga', 'ega', 'vga', 'tandy', 'pcjr', 'hercules', 'olivetti', 'mda'):
        gfx = 0 if video == 'mda' else 3
        us.append(Unit('hist-' + video, 'hyp', shards=4,
                       examples={'quick': 18 if video != 'mda' else 10, 'thorough': 500},
                       strategy=(lambda v=video, g=gfx: strat_case(v, g))))
    us.append(Unit('scroll-histories', 'hyp', shards=16, examples={'quick': 16, 'thorough': 500},
                   strategy=strat_scroll_case))
    return us


REGRESSIONS = [
    # fixed 3d0797ac: text scroll with COLOR 7,1 left attribute-0 pixels in the emulator buffer
    {'video': 'cga', 'ops': [{'op': 'color', 'f': 7, 'b': 1, 'bd': None},
                             {'op': 'locate', 'r': 24, 'c': 1},
                             {'op': 'print', 's': 'a\rb\rc', 'end': ''}]},
    # fixed 9ed66617: typed Ctrl+J (line feed) scrolls the rows below down: get_chars() kept the
    # old bottom row
    {'video': 'cga', 'ops': [{'op': 'locate', 'r': 22, 'c': 1},
                             {'op': 'print', 's': 'row22\rrow23\rrow24', 'end': ';'},
                             {'op': 'locate', 'r': 2, 'c': 1},
                             {'op': 'input', 'keys': u'xyz\n'}]},
    # OPEN: line feed typed on row 25 (tandy, KEY OFF): scroll_down(25, 24) blanks the displayed
    # row 25 only
    {'video': 'tandy', 'ops': [{'op': 'locate', 'r': 25, 'c': None},
                               {'op': 'print', 's': 'bottom', 'end': ';'},
                               {'op': 'input', 'keys': u'\n'}]},
    # fixed 2d18f9ce: DRAW "C256": the colour was written to the pixel buffer unchecked
    {'video': 'cga', 'ops': [{'op': 'screen', 'm': 1}, {'op': 'draw', 's': 'C256R5', 'raw': True}]},
    # fixed 10536925: PCOPY shared the unicode rows between the pages: clearing the source blanked
    # the copy's text
    {'video': 'cga', 'ops': [{'op': 'screen', 'm': 0, 'cs': 0, 'ap': None, 'vp': None},
                             {'op': 'print', 's': 'hello', 'end': ''},
                             {'op': 'pcopy', 'a': 0, 'b': 1}, {'op': 'cls', 'arg': None},
                             {'op': 'screen', 'm': None, 'cs': None, 'ap': 1, 'vp': 1}]},
    # resume redraws graphics and text
    {'video': 'ega', 'ops': [{'op': 'screen', 'm': 9}, {'op': 'line', 'x': 30, 'y': 30, 'x2': 300,
                                                         'y2': 200, 'c': 3, 'st': 'BF'},
                             {'op': 'print', 's': 'hello', 'end': ''}, {'op': 'resume'},
                             {'op': 'print', 's': 'again', 'end': ''}]},
    # page switch after output, PCOPY
    {'video': 'cga', 'ops': [{'op': 'print', 's': 'page0', 'end': ''},
                             {'op': 'screen', 'm': None, 'cs': None, 'ap': 1, 'vp': 0},
                             {'op': 'print', 's': 'page1', 'end': ''},
                             {'op': 'screen', 'm': None, 'cs': None, 'ap': 1, 'vp': 1},
                             {'op': 'pcopy', 'a': 0, 'b': 1}]},
    # hercules: 25 rows of 14 lines on a 348-line canvas
    {'video': 'hercules', 'ops': [{'op': 'screen', 'm': 3}, {'op': 'locate', 'r': 25, 'c': 1},
                                  {'op': 'print', 's': 'bottom\rline', 'end': ''},
                                  {'op': 'cls', 'arg': None}]},
]

KILLS = [
    "buffers._update_pixels: no _submit after a pixel write -> pixels.gfx.no-signal",
    "buffers.scroll_up: VIDEO_SCROLL with to_row-1 / from_row+1 -> pixels.text.scroll, pixels.gfx.scroll",
    "buffers.scroll_down: VIDEO_SCROLL with to_row-1 -> signal.malformed.scroll / pixels.text.scroll",
    "buffers.set_visible: no resubmit -> pixels.*.no-signal / pixels.*.set_mode",
    "buffers.scroll_up/scroll_down: vacated row not filled with the background (revert of 3d0797ac) "
    "-> scroll.background.pixels",
    "buffers.copy_from: no resubmit after PCOPY -> pixels.text.no-signal",
    "display.rebuild: pages not resubmitted -> pixels.*.set_mode (attach and resume)",
    "buffers.scroll_up: force_submit dropped before the scroll signal -> chars-bytes.*.scroll",
    "buffers._submit: sprite one column short -> pixels.*.update",
    "buffers.clear_rows: signal carries attribute 0 instead of the background -> pixels.text.clear_rows",
    "buffers._submit: invisible pages submit too -> pixels.*.update / pixels.*.set_mode",
    "buffers.pixel_to_text_area: right column one short -> pixels.gfx.update",
    "SURVIVES (equivalent): buffers.clear_rows emitting VIDEO_CLEAR_ROWS before force_submit - no "
    "caller reaches clear_rows with dirty rectangles pending (0 of 697 instrumented calls), so the "
    "order is unobservable",
]
