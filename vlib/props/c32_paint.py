"""
C32 - a solid PAINT fills exactly the enclosed 4-connected region.

One case = one session in an (adapter, SCREEN mode) and 1-3 independent paint jobs. A job clears
the active page, declares a viewport (or none), writes a generated bitmap of border / background /
other-colour pixels at an offset inside it, and runs one PAINT. The reference is a breadth-first
4-neighbour fill over the *before* snapshot, through pixels that differ from the border attribute,
clipped to the viewport.
"""
import random
from collections import deque

from hypothesis import strategies as st

from vlib.core import Result, Unit
from vlib import gfxutil
from vlib.gfxutil import MODE_BY_NAME, GfxSess

ID = 'C32'
LEVEL = 'exploration'
RULE = ("Bitmaps of 3x3..64x48 pixels from ten shape families (DFS-carved mazes, spirals, "
        "1-pixel diagonal walls, concentric boxes, combs, random border dust, blobs/islands, "
        "open regions cut by the viewport edge, nested rooms with doors, checkerboards) with "
        "optional third colours and pre-existing fill-coloured pixels, placed at a random offset "
        "inside a random viewport (VIEW or VIEW SCREEN, or none with a closed frame); seed point "
        "on background, on a border pixel, in an enclosed pocket, outside the viewport; fill != "
        "border, fill == border (border omitted), in modes with 2, 4 and 16 attributes of all "
        "adapters. Non-trivial: the reference region has a row with >= 2 separate scanline "
        "segments or touches the viewport edge. distinct = distinct case.")
ASSUMPTIONS = [
    "bitmaps are written straight into the page's pixel matrix; the oracle uses the snapshot "
    "taken just before the PAINT",
    "when the reference region already contains pixels in the fill attribute only 'changed "
    "pixels lie in the region and now have the fill attribute' is asserted (the statement is "
    "silent about completeness there; the manual says the fill stops at such pixels)",
    "seed on a border pixel or outside the viewport: nothing may change (manual: no flood fill)",
    "a fill attribute above the palette size is not generated; PAINT must not raise an error",
    "DRAW \"BMx,y P f,b\" is generated as a second spelling of a solid paint (1 in 10 jobs)",
]
TECHNIQUE = "generated bitmaps vs. reference BFS fill (exact set comparison)"


# --------------------------------------------------------------------------------------------
# oracle

def reference_region(img, view, sx, sy, border):
    """4-connected set of pixels != border reachable from (sx, sy) inside view (absolute)."""
    x0, y0, x1, y1 = view
    if not (x0 <= sx <= x1 and y0 <= sy <= y1):
        return set()
    if img[sy][sx] == border:
        return set()
    seen = {(sx, sy)}
    q = deque([(sx, sy)])
    while q:
        x, y = q.popleft()
        for nx, ny in ((x + 1, y), (x - 1, y), (x, y + 1), (x, y - 1)):
            if x0 <= nx <= x1 and y0 <= ny <= y1 and (nx, ny) not in seen and img[ny][nx] != border:
                seen.add((nx, ny))
                q.append((nx, ny))
    return seen


def _segments_per_row(region):
    rows = {}
    for x, y in region:
        rows.setdefault(y, []).append(x)
    worst = 0
    for xs in rows.values():
        xs.sort()
        segs = 1 + sum(1 for a, b in zip(xs, xs[1:]) if b != a + 1)
        worst = max(worst, segs)
    return worst


def check_case(case):
    res = Result()
    mode = MODE_BY_NAME[case['mode']]
    W, H, N = mode.width, mode.height, mode.nattr
    jobs = case['jobs']
    stmts = []
    for job in jobs:
        stmts.append(job['view'] if job.get('view') else 'VIEW')
        stmts.append(job['paint'])
    g = GfxSess(mode, case.get('ap', 0), case.get('vp', 0))
    try:
        if g.setup_error:
            res.fail('setup', g.setup_error)
            return res
        o = g.load(stmts)
        if o is not None:
            res.fail('setup.load', 'storing the program: %r' % (o,))
            return res
        res.label('mode:' + mode.name, 'nattr:%d' % N)
        blank = [bytes(W)] * H
        others = g.snap_all()
        nt = False
        for j, job in enumerate(jobs):
            g.put_rows(blank)
            err, o = g.run(2 * j)
            if err != 0:
                res.fail('setup.view', '%s: err=%r %r' % (stmts[2 * j], err, o))
                break
            bitmap = [bytes(int(ch, 16) for ch in row) for row in job['bitmap']]
            ox, oy = job['ox'], job['oy']
            g.put_rows(bitmap, x0=ox, y0=oy)
            before = g.snap()
            view = tuple(job['vrect']) if job.get('vrect') else (0, 0, W - 1, H - 1)
            sx, sy = job['sx'], job['sy']            # absolute seed position
            fill, border = job['fill'], job['border']
            region = reference_region(before, view, sx, sy, border)
            err, o = g.run(2 * j + 1)
            what = '%s [%s] in %s, bitmap %s %dx%d at (%d,%d)' % (
                job['paint'], stmts[2 * j], mode.name, job['kind'], len(bitmap[0]), len(bitmap),
                ox, oy)
            if err is None:
                if o.kind == 'budget':
                    res.inconclusive = True
                    res.label('budget')
                else:
                    res.fail(gfxutil.escaped_key(o) if o.kind == 'escaped' else 'not-silent',
                             '%s: %r %s' % (what, o, o.tb or ''))
                break
            if err != 0:
                res.fail('paint.err', '%s raised error %d' % (what, err))
                break
            after = g.snap()
            changed = set(gfxutil.diff_pixels(before, after))
            res.label('kind:' + job['kind'],
                      'seed:' + ('outside' if not region and not (
                          view[0] <= sx <= view[2] and view[1] <= sy <= view[3]) else
                          'on-border' if not region else 'in-region'),
                      'fill==border' if fill == border else 'fill!=border',
                      'form:' + job.get('form', 'paint'))
            leak = changed - region
            if leak:
                key = 'paint.leak' if region else 'paint.should-do-nothing'
                res.fail(key, '%s: %d pixels changed outside the reference region (size %d), '
                         'e.g. %r' % (what, len(leak), len(region), sorted(leak)[:4]))
            wrong = [(x, y) for x, y in changed if after[y][x] != fill]
            if wrong:
                res.fail('paint.attr', '%s: changed pixel %r has attribute %d, not the fill %d' % (
                    what, wrong[0], after[wrong[0][1]][wrong[0][0]], fill))
            has_fill = any(before[y][x] == fill for x, y in region)
            if region:
                res.label('region-has-fill' if has_fill else 'region-clean')
            if region and not has_fill:
                missing = [(x, y) for x, y in region if after[y][x] != fill]
                if missing:
                    res.fail('paint.incomplete', '%s: %d of %d region pixels not filled, e.g. %r' % (
                        what, len(missing), len(region), sorted(missing)[:4]))
            for p in g.changed_pages(others, skip=g.apage):
                res.fail('paint.other-page', '%s changed page %d' % (what, p))
                others[p] = g.snap(p)
            if region:
                segs = _segments_per_row(region)
                edge = any(x in (view[0], view[2]) or y in (view[1], view[3]) for x, y in region)
                if segs >= 2:
                    res.label('reentrant')
                if edge:
                    res.label('touches-view-edge')
                if segs >= 2 or edge:
                    nt = True
                res.label('region:%s' % ('<50' if len(region) < 50 else '<500' if len(region) < 500
                                         else '>=500'))
        res.nt(nt)
    finally:
        g.close()
    return res


# --------------------------------------------------------------------------------------------
# bitmap families  (grid[y][x] in {0: background, 1: border, 2: other colour A, 3: fill-coloured})

def _blank(w, h, v=0):
    return [[v] * w for _ in range(h)]


def _frame(grid):
    h, w = len(grid), len(grid[0])
    for x in range(w):
        grid[0][x] = grid[h - 1][x] = 1
    for y in range(h):
        grid[y][0] = grid[y][w - 1] = 1


def bm_maze(r, w, h):
    cw, ch = max(1, (w - 1) // 2), max(1, (h - 1) // 2)
    grid = _blank(2 * cw + 1, 2 * ch + 1, 1)
    seen = {(0, 0)}
    stack = [(0, 0)]
    grid[1][1] = 0
    while stack:
        cx, cy = stack[-1]
        nb = [(cx + dx, cy + dy) for dx, dy in ((1, 0), (-1, 0), (0, 1), (0, -1))
              if 0 <= cx + dx < cw and 0 <= cy + dy < ch and (cx + dx, cy + dy) not in seen]
        if not nb:
            stack.pop()
            continue
        nx, ny = nb[r.randrange(len(nb))]
        grid[cy + ny + 1][cx + nx + 1] = 0
        grid[2 * ny + 1][2 * nx + 1] = 0
        seen.add((nx, ny))
        stack.append((nx, ny))
    # knock a few walls out / leave a few cells walled off
    for _ in range(r.randrange(4)):
        grid[r.randrange(len(grid))][r.randrange(len(grid[0]))] = r.choice([0, 1])
    return grid


def bm_spiral(r, w, h):
    """Rectangular spiral wall with a corridor of width gap-1."""
    grid = _blank(w, h, 0)
    gap = r.choice([2, 2, 3])
    x, y = 0, 0
    lo_x, lo_y, hi_x, hi_y = 0, 0, w - 1, h - 1
    grid[0][0] = 1
    for d in range(4 * max(w, h)):
        moved = False
        if d % 4 == 0:
            while x + 1 <= hi_x:
                x += 1
                grid[y][x] = 1
                moved = True
            lo_y = y + gap
        elif d % 4 == 1:
            while y + 1 <= hi_y:
                y += 1
                grid[y][x] = 1
                moved = True
            hi_x = x - gap
        elif d % 4 == 2:
            while x - 1 >= lo_x:
                x -= 1
                grid[y][x] = 1
                moved = True
            hi_y = y - gap
        else:
            while y - 1 >= lo_y:
                y -= 1
                grid[y][x] = 1
                moved = True
            lo_x = x + gap
        if not moved:
            break
    return grid


def bm_diag(r, w, h):
    grid = _blank(w, h, 0)
    if r.random() < 0.7:
        _frame(grid)
    for _ in range(r.randrange(1, 4)):
        x, y = r.randrange(w), 0
        dx = r.choice([1, -1])
        thick = r.random() < 0.3
        while 0 <= x < w and y < h:
            grid[y][x] = 1
            if thick and 0 <= x + dx < w:
                grid[y][x + dx] = 1      # "staircase" wall that is 4-connected: must not leak
            x += dx
            y += 1
    return grid


def bm_boxes(r, w, h):
    grid = _blank(w, h, 0)
    x0, y0, x1, y1 = 0, 0, w - 1, h - 1
    step = r.choice([2, 3, 4])
    while x1 - x0 >= 2 and y1 - y0 >= 2:
        for x in range(x0, x1 + 1):
            grid[y0][x] = grid[y1][x] = 1
        for y in range(y0, y1 + 1):
            grid[y][x0] = grid[y][x1] = 1
        if r.random() < 0.4:
            # door
            side = r.randrange(4)
            if side == 0:
                grid[y0][r.randrange(x0 + 1, x1)] = 0
            elif side == 1:
                grid[y1][r.randrange(x0 + 1, x1)] = 0
            elif side == 2:
                grid[r.randrange(y0 + 1, y1)][x0] = 0
            else:
                grid[r.randrange(y0 + 1, y1)][x1] = 0
        x0 += step
        y0 += step
        x1 -= step
        y1 -= step
    return grid


def bm_comb(r, w, h):
    grid = _blank(w, h, 0)
    if r.random() < 0.6:
        _frame(grid)
    vertical = r.random() < 0.5
    pitch = r.choice([2, 3, 4])
    if vertical:
        up = r.random() < 0.5
        for x in range(1, w - 1, pitch):
            for y in (range(0, h - 2) if up else range(2, h)):
                grid[y][x] = 1
    else:
        left = r.random() < 0.5
        for y in range(1, h - 1, pitch):
            for x in (range(0, w - 2) if left else range(2, w)):
                grid[y][x] = 1
    return grid


def bm_dust(r, w, h):
    p = r.choice([0.08, 0.2, 0.33, 0.45])
    grid = [[1 if r.random() < p else 0 for _ in range(w)] for _ in range(h)]
    if r.random() < 0.5:
        _frame(grid)
    return grid


def bm_blobs(r, w, h):
    grid = _blank(w, h, 0)
    if r.random() < 0.5:
        _frame(grid)
    for _ in range(r.randrange(1, 6)):
        cx, cy, rx, ry = r.randrange(w), r.randrange(h), r.randrange(1, 6), r.randrange(1, 5)
        hollow = r.random() < 0.5
        for y in range(max(0, cy - ry), min(h, cy + ry + 1)):
            for x in range(max(0, cx - rx), min(w, cx + rx + 1)):
                d = ((x - cx) / float(rx)) ** 2 + ((y - cy) / float(ry)) ** 2
                if d <= 1.0 and not (hollow and d < 0.45):
                    grid[y][x] = 1
    return grid


def bm_open(r, w, h):
    """Walls that do not close: the region runs to the viewport edge."""
    grid = _blank(w, h, 0)
    for _ in range(r.randrange(1, 5)):
        if r.random() < 0.5:
            y = r.randrange(h)
            a, b = sorted((r.randrange(w), r.randrange(w)))
            for x in range(a, b + 1):
                grid[y][x] = 1
        else:
            x = r.randrange(w)
            a, b = sorted((r.randrange(h), r.randrange(h)))
            for y in range(a, b + 1):
                grid[y][x] = 1
    return grid


def bm_rooms(r, w, h):
    grid = _blank(w, h, 0)
    _frame(grid)

    def split(x0, y0, x1, y1, depth):
        if depth == 0 or x1 - x0 < 4 or y1 - y0 < 4:
            return
        if (x1 - x0 > y1 - y0) if r.random() < 0.8 else (r.random() < 0.5):
            x = r.randrange(x0 + 2, x1 - 1)
            for y in range(y0, y1 + 1):
                grid[y][x] = 1
            if r.random() < 0.7:
                grid[r.randrange(y0 + 1, y1)][x] = 0
            split(x0, y0, x - 1, y1, depth - 1)
            split(x + 1, y0, x1, y1, depth - 1)
        else:
            y = r.randrange(y0 + 2, y1 - 1)
            for x in range(x0, x1 + 1):
                grid[y][x] = 1
            if r.random() < 0.7:
                grid[y][r.randrange(x0 + 1, x1)] = 0
            split(x0, y0, x1, y - 1, depth - 1)
            split(x0, y + 1, x1, y1, depth - 1)
    split(1, 1, w - 2, h - 2, r.randrange(1, 5))
    return grid


def bm_checker(r, w, h):
    k = r.choice([1, 1, 2])
    grid = [[1 if ((x // k) + (y // k)) % 2 else 0 for x in range(w)] for y in range(h)]
    if r.random() < 0.5:
        # a clear band through the checkerboard
        y = r.randrange(h)
        for x in range(w):
            grid[y][x] = 0
    return grid


FAMILIES = [('maze', bm_maze), ('spiral', bm_spiral), ('diag', bm_diag), ('boxes', bm_boxes),
            ('comb', bm_comb), ('dust', bm_dust), ('blobs', bm_blobs), ('open', bm_open),
            ('rooms', bm_rooms), ('checker', bm_checker)]


def build_job(r, mode, kind_idx, w, h):
    W, H, N = mode.width, mode.height, mode.nattr
    kind, fn = FAMILIES[kind_idx % len(FAMILIES)]
    w, h = max(3, min(w, 64, W - 8)), max(3, min(h, 48, H - 8))
    grid = fn(r, w, h)
    h, w = len(grid), len(grid[0])
    # attributes
    attrs = list(range(N))
    border = r.choice(attrs[1:]) if r.random() < 0.9 else 0
    same = r.random() < 0.3 or N == 2 and r.random() < 0.7
    fill = border if same else r.choice([a for a in attrs if a != border])
    bg = r.choice([a for a in attrs if a != border]) if r.random() < 0.3 else 0
    if bg == border:
        bg = 0 if border else 1
    others = [a for a in attrs if a not in (border, fill, bg)]
    p_other = r.choice([0, 0, 0.05, 0.3]) if others else 0
    p_fill = r.choice([0, 0, 0, 0.03, 0.2]) if fill != border and fill != bg else 0
    rows = []
    for grow in grid:
        row = []
        for v in grow:
            if v == 1:
                row.append(border)
            elif p_other and r.random() < p_other:
                row.append(r.choice(others))
            elif p_fill and r.random() < p_fill:
                row.append(fill)
            else:
                row.append(bg)
        rows.append(row)
    # placement and viewport
    margin = [r.randrange(0, 4) for _ in range(4)]
    use_view = r.random() < 0.75
    if use_view:
        ox = r.randrange(margin[0], W - w - margin[2] + 1)
        oy = r.randrange(margin[1], H - h - margin[3] + 1)
        if r.random() < 0.2:
            # viewport cuts into the bitmap
            cut = [r.randrange(0, 3) for _ in range(4)]
            vrect = [ox + cut[0], oy + cut[1], ox + w - 1 - cut[2], oy + h - 1 - cut[3]]
        else:
            vrect = [ox - margin[0], oy - margin[1], ox + w - 1 + margin[2], oy + h - 1 + margin[3]]
        vrect = [max(0, vrect[0]), max(0, vrect[1]), min(W - 1, vrect[2]), min(H - 1, vrect[3])]
        if vrect[2] <= vrect[0] or vrect[3] <= vrect[1]:
            vrect = [ox, oy, ox + w - 1, oy + h - 1]
        vscreen = r.random() < 0.5
        view = 'VIEW %s(%d,%d)-(%d,%d)' % ('SCREEN ' if vscreen else '', vrect[0], vrect[1],
                                           vrect[2], vrect[3])
    else:
        # no viewport: close the bitmap with a frame of border pixels so the fill stays small,
        # unless the mode is small enough to afford a full-page fill now and then
        ox = r.randrange(0, W - w + 1)
        oy = r.randrange(0, H - h + 1)
        if not (W * H <= 64000 and r.random() < 0.1):
            for x in range(w):
                rows[0][x] = rows[h - 1][x] = border
            for y in range(h):
                rows[y][0] = rows[y][w - 1] = border
        vrect, vscreen, view = None, True, None
    vr = vrect or [0, 0, W - 1, H - 1]
    # seed point (absolute)
    mode_seed = r.choice(['bg'] * 5 + ['near-edge'] * 3 + ['any', 'border', 'outside', 'edge'])
    cells = [(x, y) for y in range(h) for x in range(w)]
    if mode_seed == 'bg':
        cand = [(x, y) for x, y in cells if rows[y][x] != border]
    elif mode_seed == 'near-edge':
        # background cells within one pixel of the viewport boundary (scanline bound handling)
        cand = [(x, y) for x, y in cells if rows[y][x] != border and (
            min(abs(ox + x - vr[0]), abs(ox + x - vr[2])) <= 1
            or min(abs(oy + y - vr[1]), abs(oy + y - vr[3])) <= 1)]
        if not cand:
            cand = [(x, y) for x, y in cells if rows[y][x] != border]
    elif mode_seed == 'border':
        cand = [(x, y) for x, y in cells if rows[y][x] == border]
    else:
        cand = cells
    if cand:
        bx, by = cand[r.randrange(len(cand))]
    else:
        bx, by = cells[r.randrange(len(cells))]
    sx, sy = ox + bx, oy + by
    if mode_seed == 'outside':
        sx, sy = r.choice([(vr[0] - 1, sy), (vr[2] + 1, sy), (sx, vr[1] - 1), (sx, vr[3] + 1),
                           (vr[2] + 5, vr[3] + 5)])
    elif mode_seed == 'edge':
        sx, sy = r.choice([(vr[0], sy), (vr[2], sy), (sx, vr[1]), (sx, vr[3])])
    # statement coordinates
    if vrect is not None and not vscreen:
        px, py = sx - vrect[0], sy - vrect[1]
    else:
        px, py = sx, sy
    form = 'paint'
    if same:
        paint = 'PAINT (%d,%d),%d' % (px, py, fill)
    elif r.random() < 0.1 and 0 <= px <= 9999 and 0 <= py <= 9999:
        paint = 'DRAW "BM%d,%d P%d,%d"' % (px, py, fill, border)
        form = 'draw-p'
    else:
        paint = 'PAINT (%d,%d),%d,%d' % (px, py, fill, border)
    return {'kind': kind, 'bitmap': [''.join('%x' % v for v in row) for row in rows],
            'ox': ox, 'oy': oy, 'view': view, 'vrect': vrect, 'sx': sx, 'sy': sy,
            'fill': fill, 'border': border, 'paint': paint, 'form': form}


MODE_WEIGHTED = gfxutil.LOWRES * 3 + gfxutil.HIRES
PAGE_PAIRS = [(0, 0), (0, 0), (1, 0), (1, 1), (0, 1)]


def build_case(mname, seed, njobs, kind, w, h):
    mode = MODE_BY_NAME[mname]
    r = random.Random(seed)
    ap, vp = r.choice(PAGE_PAIRS)
    jobs = []
    for j in range(njobs):
        jobs.append(build_job(r, mode, kind + 3 * j, w if j == 0 else r.randrange(3, 65),
                              h if j == 0 else r.randrange(3, 49)))
    return {'mode': mname, 'ap': ap, 'vp': vp, 'jobs': jobs}


def strat_case():
    size = st.one_of(st.integers(3, 16), st.integers(3, 64))
    return st.builds(build_case, st.sampled_from(MODE_WEIGHTED), st.integers(0, 2 ** 31),
                     st.integers(1, 3), st.integers(0, len(FAMILIES) - 1), size,
                     st.one_of(st.integers(3, 12), st.integers(3, 48)))


def units(tier):
    return [
        Unit('bitmaps', 'hyp', shards=16,
             examples=gfxutil.scaled({'quick': 120, 'thorough': 4000}), strategy=strat_case),
    ]


REGRESSIONS = [
    # a 1-pixel diagonal wall must not leak; region left of it is filled completely
    {'mode': 'cga/1', 'ap': 0, 'vp': 0, 'jobs': [
        {'kind': 'diag', 'bitmap': ['222222', '220002', '202002', '200202', '200022', '222222'],
         'ox': 10, 'oy': 10, 'view': None, 'vrect': None, 'sx': 11, 'sy': 13, 'fill': 3,
         'border': 2, 'paint': 'PAINT (11,13),3,2', 'form': 'paint'}]},
]

KILLS = [
    'final code, VERIF_REPO=<scratch> ./check C32 (VERIF_GFX_SCALE=0.15): row above the seed line not checked -> exit 1, paint.incomplete',
    'in-process screen (same check_case/strategy as ./check, Hypothesis unit only, stops at first failure)',
    '_flood_fill: row above the seed line not checked -> paint.incomplete',
    '_check_scanline: _scanline_until(..., x_stop+1) -> x_stop -> paint.incomplete',
    "seed test 'pixel == border' replaced by '== fill' -> paint.should-do-nothing",
    'backward (around-the-corner) check left / right removed -> paint.incomplete',
    'x_right / x_left scan bound off by one -> paint.incomplete',
    'fill interval drawn one pixel too wide -> paint.leak',
    'seed out-of-bounds test without the y clauses -> paint.should-do-nothing',
    'leftward scan uses index instead of rindex -> paint.leak',
    "'y + 1 <= bound_y1' -> '<' and 'y - 1 >= bound_y0' -> '>' (seed next to the viewport edge) -> paint.incomplete",
    'forward / backward ydir bounds strict -> paint.incomplete',
    'DRAW P passes the border as fill -> paint.attr, paint.incomplete ; PAINT default border 0 -> paint.incomplete',
    'flood bounds taken from the screen -> paint.should-do-nothing',
    'SURVIVED (allowed by the statement): horizontal scan also stops at fill-coloured pixels - only differs when the region already contains fill-coloured pixels, where the statement does not require completeness',
    "NOT A KILL: 'append interval although same pattern' makes _flood_fill loop for ever -> per-case wall limit, inconclusive",
]
