"""
C12 - array subscripts address distinct elements within declared bounds.

Two kinds of cases:
 'shape'   one array (1..4 dimensions, any OPTION BASE, any element type): a stored program
           writes a unique value (the ordinal of the tuple in loop order) to every valid subscript
           tuple; everything is read back (API and, for half of the cases, a BASIC loop) and must
           show each tuple its own value; then invalid tuples (negative, base-1, bound+1, wrong
           number of subscripts) are read and written and must raise the documented error without
           changing any element.
 'history' DIM / implicit first use / ERASE / OPTION BASE / second DIM / accesses over a few array
           names, against a small model of which arrays exist with which bounds and contents.
"""
import random
import itertools

from hypothesis import strategies as st

from vlib.core import Result, Unit
from vlib import harness
from vlib import bstr_common as bc

ID = 'C12'
LEVEL = 'exploration'
TECHNIQUE = ("enumeration of small shapes + Hypothesis/seeded-random shapes and DIM/ERASE/OPTION "
             "BASE histories against a dict model; unique-value write / full read-back")
RULE = ("Shapes: all arrays with 1..3 dimensions and bounds 0..3 and all 4-dimensional ones with "
        "bounds 0..1 under OPTION BASE unset/0/1 (exhaustive unit, every valid tuple written and "
        "read, the whole box of tuples from -1 to bound+1 tried for 1-2 dimensions), plus random "
        "shapes of 1..4 dimensions with bounds 0..30 and at most 4000 elements, all four element "
        "types, both loop orders; invalid tuples: every coordinate at -1, base-1, bound+1, "
        "bound+2 and wrong arity. Histories: 3..25 operations of DIM (1..3 arrays per statement), "
        "implicit first use (indices base..11), ERASE (1..3 names per statement, incl. missing "
        "ones: partial erase), OPTION BASE, re-DIM, element assignment over three array "
        "names. Non-trivial: >= 2 dimensions with unequal bounds, or OPTION BASE 1, or an error "
        "path was exercised; distinct = distinct (shape, base, type, order) / operation list.")
ASSUMPTIONS = [
    "a tuple that is invalid in several ways (negative and too large coordinates, or wrong arity "
    "plus a negative coordinate) may raise either Illegal function call or Subscript out of range",
    "DIM with a bound below the OPTION BASE lower bound: Subscript out of range; negative bound: "
    "Illegal function call (manual)",
    "after the first use of an undeclared array FAILED (subscript 11) nothing is asserted about "
    "that array name any more (whether it was dimensioned is not specified by the statement)",
    "OPTION BASE n after every array has been erased again is not asserted when n differs from "
    "the earlier base (manual: 'allocated before', implementation: allowed); OPTION BASE with the "
    "same value is always accepted",
    "element values are written by a stored BASIC program and read back through Session."
    "get_variable (all cases) and by a BASIC comparison loop (about half of the cases)",
]

TYPES = ['%', '!', '#', '$']


class Stop(Exception):
    pass


def elem_text(ty, n):
    """BASIC expression of the unique value number n (n is a BASIC numeric expression text)."""
    if ty == '%':
        return n
    if ty in '!#':
        return b'%s+.5' % n
    return b'MKI$(%s)' % n


def elem_value(ty, n):
    if ty == '%':
        return n
    if ty in '!#':
        return n + 0.5
    return (n & 0xffff).to_bytes(2, 'little')


def flatten(x, depth):
    for _ in range(depth - 1):
        x = [y for row in x for y in row]
    return x


def product(dims, base):
    p = 1
    for d in dims:
        p *= d + 1 - base
    return p


def expected_error(tup, dims, base):
    """-> set of acceptable error codes for an access with subscript tuple `tup` (empty = valid)."""
    errs = set()
    if len(tup) != len(dims):
        errs.add(9)
        if any(i < 0 for i in tup):
            errs.add(5)
        return errs
    for i, d in zip(tup, dims):
        if i < 0:
            errs.add(5)
        elif i < base or i > d:
            errs.add(9)
    return errs


def outcome(o):
    if o.kind == 'budget':
        return 'budget'
    if o.kind != 'ok':
        return 'escaped'
    return o.errors[0][0] if o.errors else 0


# --------------------------------------------------------------------------------------------
# shape cases

def invalid_tuples(dims, base, full_box):
    nd = len(dims)
    out = []
    if full_box:
        for tup in itertools.product(*[range(-1, d + 2) for d in dims]):
            if expected_error(tup, dims, base):
                out.append(tup)
    else:
        mid = tuple(max(base, d // 2) for d in dims)
        hi = tuple(dims)
        lo = tuple(base for _ in dims)
        for anchor in (mid, hi, lo):
            for k in range(nd):
                for bad in (-1, base - 1, dims[k] + 1, dims[k] + 2):
                    t = list(anchor)
                    t[k] = bad
                    out.append(tuple(t))
        if nd >= 2:
            out.append(tuple([-1] + [d + 1 for d in dims[1:]]))
            out.append(tuple([d + 1 for d in dims[:-1]] + [-1]))
    # wrong arity
    mid = tuple(max(base, d // 2) for d in dims)
    out.append(mid + (base,))
    out.append(mid + (0,))
    if nd > 1:
        out.append(mid[:-1])
        out.append(tuple(dims[:-1]))
    seen = []
    for t in out:
        if t not in seen and expected_error(t, dims, base):
            seen.append(t)
    return seen


def check_shape(case, res):
    dims = list(case['dims'])
    ty = case['ty']
    opt = case.get('base')
    base = opt or 0
    dims = [max(base, d) for d in dims]
    nd = len(dims)
    rev = bool(case.get('rev'))
    name = b'QA' + ty.encode()
    n = product(dims, base)
    res.label('dims:%d' % nd, 'base:%s' % opt, 'type:' + ty,
              'elements:%s' % ('<=16' if n <= 16 else '<=256' if n <= 256 else '<=4000'))
    res.nt((nd >= 2 and len(set(dims)) > 1) or base == 1)
    order = list(range(nd))
    if rev:
        order.reverse()
    # loop nest: order[0] outermost
    fors = b':'.join(b'FOR I%d=%d TO %d' % (k, base, dims[k]) for k in order)
    nexts = b':'.join(b'NEXT' for _ in order)
    subs = b','.join(b'I%d' % k for k in range(nd))
    lines = []
    if opt is not None:
        lines.append(b'10 OPTION BASE %d' % opt)
    lines.append(b'20 DIM %s(%s)' % (name, b','.join(b'%d' % d for d in dims)))
    lines.append(b'30 N=0:%s:%s(%s)=%s:N=N+1:%s' % (fors, name, subs, elem_text(ty, b'N'), nexts))
    lines.append(b'40 END')
    # BASIC-side verification loop (same order): counts mismatches in E, visits in M
    lines.append(b'50 N=0:E=0:M=0:%s:IF %s(%s)<>%s THEN E=E+1' % (
        fors, name, subs, elem_text(ty, b'N')))
    lines.append(b'60 N=N+1:M=M+1:%s:END' % nexts)
    # expected contents in API (nested, first index outermost) order
    ranges = [range(base, d + 1) for d in dims]
    ordinal = {}
    k = 0
    for tup in itertools.product(*[ranges[i] for i in order]):
        full = [None] * nd
        for pos, i in enumerate(order):
            full[i] = tup[pos]
        ordinal[tuple(full)] = k
        k += 1
    expected = [elem_value(ty, ordinal[t]) for t in itertools.product(*ranges)]

    with harness.Sess(sandbox=bc.shared_sandbox(), budget=12 * n + 2000) as sess:
        def run(text, what):
            o = sess.execute(text)
            r = outcome(o)
            if r == 'budget':
                res.inconclusive = True
                raise Stop()
            if r == 'escaped':
                res.fail(bc.escaped_key(o), '%s %r: %s' % (what, text, (o.tb or '')[-500:]))
                raise Stop()
            return r

        def read_all(where):
            try:
                got = sess.get(name.decode() + '()')
            except Exception as e:      # noqa: B902
                res.fail(bc.exc_key(e), 'reading the array %s: %r' % (where, e))
                raise Stop()
            got = flatten(got, nd)
            if len(got) != len(expected):
                res.fail('shape.element-count', '%s: %d elements, expected %d for DIM(%s) base %s'
                         % (where, len(got), len(expected), dims, opt))
                raise Stop()
            if got != expected:
                bad = [(t, g, e) for t, g, e in zip(itertools.product(*ranges), got, expected)
                       if g != e][:5]
                res.fail('shape.%s' % ('aliasing' if where == 'after fill' else 'changed-by-error'),
                         '%s DIM(%s) base %s type %s rev=%s: (tuple, got, expected) %r' % (
                             where, dims, opt, ty, rev, bad))
                raise Stop()

        for ln in lines:
            r = run(ln, 'store')
            if r:
                res.fail('shape.store-error', '%r -> %r' % (ln, r))
                raise Stop()
        r = run(b'RUN', 'fill')
        if r:
            res.fail('shape.fill-error', 'DIM(%s) base %s type %s: RUN -> error %r' % (
                dims, opt, ty, r))
            raise Stop()
        read_all('after fill')
        if case.get('verify'):
            res.label('basic-verify')
            r = run(b'GOTO 50', 'verify')
            if r:
                res.fail('shape.verify-error', 'DIM(%s) base %s: verify loop -> error %r' % (
                    dims, opt, r))
                raise Stop()
            e, m = sess.get('E!'), sess.get('M!')
            if e != 0 or m != n:
                res.fail('shape.aliasing', 'DIM(%s) base %s type %s rev=%s: BASIC loop saw %r '
                         'mismatches in %r of %d elements' % (dims, opt, ty, rev, e, m, n))
                raise Stop()
        # invalid tuples
        bads = invalid_tuples(dims, base, bool(case.get('box')))
        tmp = b'X$' if ty == '$' else b'X' + ty.encode()
        filler = b'"zz"' if ty == '$' else b'77'
        for tup in bads:
            exp = expected_error(tup, dims, base)
            sub = b','.join(b'%d' % i for i in tup)
            for stmt in (b'%s=%s(%s)' % (tmp, name, sub), b'%s(%s)=%s' % (name, sub, filler)):
                r = run(stmt, 'invalid access')
                res.label('invalid:%s' % ('arity' if len(tup) != nd else
                                          'negative' if 5 in exp and len(exp) == 1 else
                                          'range' if len(exp) == 1 else 'mixed'))
                if r == 0:
                    res.fail('bounds.error-missing.%s' % ('arity' if len(tup) != nd else 'range'),
                             '%r with DIM(%s) base %s: no error, expected %r' % (
                                 stmt, dims, opt, sorted(exp)))
                    read_all('after invalid access')
                    raise Stop()
                if r not in exp:
                    res.fail('bounds.wrong-error', '%r with DIM(%s) base %s: error %r, expected %r'
                             % (stmt, dims, opt, r, sorted(exp)))
                    raise Stop()
        if bads:
            res.nt(True)
        read_all('after invalid access')
        # second DIM must fail, ERASE + new DIM must work
        r = run(b'DIM %s(%s)' % (name, b','.join(b'%d' % d for d in dims)), 're-dim')
        if r != 10:
            res.fail('redim.not-duplicate', 'second DIM -> %r, expected 10' % (r,))
            raise Stop()
        read_all('after invalid access')
        r = run(b'ERASE %s' % name, 'erase')
        if r:
            res.fail('erase.error', 'ERASE -> %r' % (r,))
            raise Stop()
        newdims = [base + 1] * (1 if nd > 1 else 2)
        r = run(b'DIM %s(%s)' % (name, b','.join(b'%d' % d for d in newdims)), 'dim after erase')
        if r:
            res.fail('erase.dim-after-erase', 'DIM %s(%s) after ERASE -> %r' % (name, newdims, r))
            raise Stop()
        try:
            got = flatten(sess.get(name.decode() + '()'), len(newdims))
        except Exception as e:      # noqa: B902
            res.fail(bc.exc_key(e), 'reading the array after ERASE+DIM: %r' % (e,))
            raise Stop()
        zero = b'' if ty == '$' else 0
        if got != [zero] * product(newdims, base):
            res.fail('erase.redim-contents', 'after ERASE and DIM(%s): %r' % (newdims, got[:10]))


# --------------------------------------------------------------------------------------------
# history cases

NAMES = ['QA', 'QB', 'ZC']


class HArr(object):
    def __init__(self, dims, base):
        self.dims = dims
        self.base = base
        self.cells = {}


def check_history(case, res):
    ty = case.get('ty', '!')
    arrays = {}            # name -> HArr
    dead = set()           # names whose state is unspecified
    base = None            # effective base: None = never fixed
    explicit = False
    confirmed = False      # OPTION BASE was given after a DIM had already fixed the same base
    ever = False           # some array was allocated at some time
    nontrivial = False
    zero = b'' if ty == '$' else 0

    with harness.Sess(sandbox=bc.shared_sandbox(), budget=20000) as sess:
        def run(text):
            o = sess.execute(text)
            r = outcome(o)
            if r == 'budget':
                res.inconclusive = True
                raise Stop()
            if r == 'escaped':
                res.fail(bc.escaped_key(o), '%r: %s' % (text, (o.tb or '')[-500:]))
                raise Stop()
            return r

        def verify(where):
            for nm, a in arrays.items():
                try:
                    got = flatten(sess.get(nm + ty + '()'), len(a.dims))
                except Exception as e:      # noqa: B902
                    res.fail(bc.exc_key(e), 'reading %s %s: %r' % (nm, where, e))
                    raise Stop()
                ranges = [range(a.base, d + 1) for d in a.dims]
                exp = [a.cells.get(t, zero) for t in itertools.product(*ranges)]
                if got != exp:
                    res.fail('history.contents', '%s: %s%s() = %r, model %r' % (
                        where, nm, ty, got[:40], exp[:40]))
                    raise Stop()

        for idx, op in enumerate(case['ops']):
            o = op['o']
            nm = NAMES[op.get('a', 0) % len(NAMES)]
            full = (nm + ty).encode()
            res.label('op:' + o)
            if o == 'base':
                n = op['n'] % 2
                r = run(b'OPTION BASE %d' % n)
                if base is None and not ever:
                    exp = {0}
                elif base is None:
                    # every array erased again after an implicit base: not specified
                    exp = {0, 10} if n != 0 else {0}
                elif n == base:
                    exp = {0}
                else:
                    exp = {10}
                    nontrivial = True
                if r == 0 and exp == {10} and confirmed and not arrays:
                    # fixed 53d02912: an OPTION BASE that confirmed the base fixed by an earlier
                    # DIM was forgotten when the last array was erased (own bucket key)
                    res.fail('optionbase.explicit-forgotten-after-erase',
                             'step %d OPTION BASE %d accepted although OPTION BASE %d was '
                             'executed before (after a DIM; all arrays erased since)' % (
                                 idx, n, base))
                    raise Stop()
                if r not in exp:
                    res.fail('optionbase.%s' % ('error-missing' if r == 0 else 'wrong-error'),
                             'step %d OPTION BASE %d with base %r (explicit=%s, arrays %s): %r, '
                             'expected %r' % (idx, n, base, explicit, sorted(arrays), r,
                                              sorted(exp)))
                    raise Stop()
                if r == 0:
                    if base is None and exp == {0, 10}:
                        # accepted in the unspecified state: the model follows the observation
                        pass
                    if base is not None and not explicit:
                        confirmed = True
                    base = n
                    explicit = True
                    if n == 1:
                        nontrivial = True
            elif o == 'dim':
                # one DIM statement for 1..3 arrays; with several arrays only when the model
                # predicts success for all of them (partial DIM is not specified)
                specs = [(nm, list(op['dims']))] + [
                    (NAMES[x['a'] % len(NAMES)], list(x['dims'])) for x in op.get('more', [])]
                if any(n in dead for n, _ in specs):
                    continue
                eff = base or 0

                def dim_exp(n, dims, have):
                    if n in have:
                        return {10}
                    if any(d < 0 for d in dims):
                        return {5}
                    if any(d < eff for d in dims):
                        return {9}
                    return {0}
                have = set(arrays)
                ok = True
                for n, dims in specs:
                    if dim_exp(n, dims, have) != {0}:
                        ok = False
                    have.add(n)
                if not ok:
                    specs = specs[:1]
                res.label('dim-arrays:%d' % len(specs))
                exp = dim_exp(specs[0][0], specs[0][1], set(arrays))
                text = b'DIM ' + b','.join(b'%s(%s)' % ((n + ty).encode(), b','.join(
                    b'%d' % d for d in dims)) for n, dims in specs)
                r = run(text)
                if exp != {0}:
                    nontrivial = True
                if r not in exp:
                    res.fail('dim.%s' % ('error-missing' if r == 0 else
                                         'spurious-error' if exp == {0} else 'wrong-error'),
                             'step %d %r base %r existing %s: %r, expected %r' % (
                                 idx, text, base, sorted(arrays), r, sorted(exp)))
                    raise Stop()
                if r == 0:
                    if base is None:
                        base = 0
                    ever = True
                    for n, dims in specs:
                        arrays[n] = HArr(dims, base)
                        if len(set(dims)) > 1:
                            nontrivial = True
            elif o == 'erase':
                # one ERASE statement for 1..3 names; names before the first missing one are
                # erased (manual), then Illegal function call
                names = [nm] + [NAMES[x % len(NAMES)] for x in op.get('more', [])]
                if any(n in dead for n in names):
                    continue
                res.label('erase-names:%d' % len(names))
                r = run(b'ERASE ' + b','.join((n + ty).encode() for n in names))
                gone = []
                exp = {0}
                for n in names:
                    if n in arrays and n not in gone:
                        gone.append(n)
                    else:
                        exp = {5}
                        break
                if r not in exp:
                    res.fail('erase.%s' % ('error-missing' if r == 0 else 'wrong-error'),
                             'step %d ERASE %s existing %s: %r, expected %r' % (
                                 idx, names, sorted(arrays), r, sorted(exp)))
                    raise Stop()
                for n in gone:
                    del arrays[n]
                if gone and not arrays and not explicit:
                    base = None
                if r != 0:
                    nontrivial = True
                    if gone:
                        res.label('erase-partial')
            elif o in ('put', 'get'):
                if nm in dead:
                    continue
                tup = tuple(op['i'])
                eff = base or 0
                if nm in arrays:
                    a = arrays[nm]
                    # subscripts relative to the declared shape: map small ints onto the bounds
                    tup = tuple(tup[:len(a.dims)]) if op.get('fit') else tup
                    if op.get('fit'):
                        tup = tuple(a.base + (i % (d + 1 - a.base)) for i, d in zip(
                            tup + (0,) * len(a.dims), a.dims))
                    exp = expected_error(tup, a.dims, a.base)
                    implicit = False
                else:
                    implicit = True
                    exp = expected_error(tup, [10] * len(tup), eff)
                sub = b','.join(b'%d' % i for i in tup)
                if o == 'put':
                    val = idx * 3 + 1
                    stmt = b'%s(%s)=%s' % (full, sub, elem_text(ty, b'%d' % val))
                else:
                    stmt = b'%s=%s(%s)' % (b'X$' if ty == '$' else b'X' + ty.encode(), full, sub)
                r = run(stmt)
                if implicit:
                    res.label('implicit-first-use:%s' % ('ok' if not exp else 'bad'))
                if exp:
                    nontrivial = True
                    if r == 0:
                        res.fail('bounds.error-missing.%s' % ('implicit' if implicit else 'range'),
                                 'step %d %r (arrays %s, base %r): no error, expected %r' % (
                                     idx, stmt, {k: v.dims for k, v in arrays.items()}, base,
                                     sorted(exp)))
                        raise Stop()
                    if r not in exp:
                        res.fail('bounds.wrong-error', 'step %d %r: %r, expected %r' % (
                            idx, stmt, r, sorted(exp)))
                        raise Stop()
                    if implicit:
                        dead.add(nm)
                        if base is None:
                            # an implicit allocation may or may not have fixed the base
                            dead.update(NAMES)
                            res.label('history-ends:unspecified-base')
                            break
                else:
                    if r != 0:
                        res.fail('bounds.spurious-error.%s' % ('implicit' if implicit else 'range'),
                                 'step %d %r (arrays %s, base %r): error %r' % (
                                     idx, stmt, {k: v.dims for k, v in arrays.items()}, base, r))
                        raise Stop()
                    if implicit:
                        if base is None:
                            base = 0
                        ever = True
                        arrays[nm] = HArr([10] * len(tup), base)
                    a = arrays[nm]
                    if o == 'put':
                        a.cells[tup] = elem_value(ty, idx * 3 + 1)
                    else:
                        got = sess.get('X$' if ty == '$' else 'X' + ty)
                        if got != a.cells.get(tup, zero):
                            res.fail('history.read', 'step %d %r = %r, model %r' % (
                                idx, stmt, got, a.cells.get(tup, zero)))
                            raise Stop()
            else:
                raise ValueError(o)
            verify('after step %d %s' % (idx, o))
    res.nt(nontrivial)


def check_case(case):
    res = Result()
    try:
        if case['u'] == 'shape':
            check_shape(case, res)
        else:
            check_history(case, res)
    except Stop:
        pass
    return res


# --------------------------------------------------------------------------------------------
# generators

def gen_small(shard, nshards, tier, seed):
    """All shapes with small bounds under every OPTION BASE setting (finite, complete)."""
    shapes = []
    for nd in (1, 2, 3):
        shapes.extend(itertools.product(range(0, 4), repeat=nd))
    shapes.extend(itertools.product(range(0, 2), repeat=4))
    k = 0
    for dims in shapes:
        for base in (None, 0, 1):
            if base == 1 and min(dims) < 1:
                continue
            for rev in (False, True):
                if rev and (len(dims) == 1 or base is None):
                    continue
                k += 1
                if k % nshards != shard:
                    continue
                yield {'u': 'shape', 'dims': list(dims), 'base': base,
                       'ty': TYPES[(k // nshards) % 4], 'rev': rev,
                       'verify': (k // (4 * nshards)) % 2 == 0, 'box': len(dims) <= 2}


def gen_shape(ch):
    nd = ch.weighted([(2, 1), (4, 2), (3, 3), (2, 4)])
    base = ch.choice([None, 0, 1, 1])
    lo = base or 0
    dims = []
    for _ in range(nd):
        k = ch.int(0, 9)
        if k < 3:
            dims.append(ch.choice([lo, lo + 1, 10, 11, 30]))
        elif k < 7:
            dims.append(ch.int(lo, 6))
        else:
            dims.append(ch.int(lo, 30))
    while product(dims, lo) > 4000:
        i = dims.index(max(dims))
        dims[i] = max(lo, dims[i] // 2)
    n = product(dims, lo)
    return {'u': 'shape', 'dims': dims, 'base': base, 'ty': ch.choice(TYPES),
            'rev': bool(ch.int(0, 1)), 'verify': n <= 600 and bool(ch.int(0, 1)), 'box': False}


def gen_history(ch, maxsteps):
    ops = []
    for _ in range(ch.int(3, maxsteps)):
        o = ch.weighted([(5, 'dim'), (4, 'erase'), (3, 'base'), (7, 'put'), (5, 'get')])
        if o == 'dim':
            nd = ch.choice([1, 1, 2, 2, 3])
            dims = [ch.choice([0, 1, 1, 2, 3, 4, 10, 11, -1]) if ch.int(0, 5) == 0
                    else ch.int(1, 5) for _ in range(nd)]
            while product([max(0, d) for d in dims], 0) > 200:
                dims[dims.index(max(dims))] = 2
            op = {'o': 'dim', 'a': ch.int(0, 2), 'dims': dims}
            if ch.int(0, 2) == 0:
                op['more'] = [{'a': ch.int(0, 2), 'dims': [ch.int(1, 4) for _ in range(
                    ch.choice([1, 2]))]} for _ in range(ch.choice([1, 2]))]
            ops.append(op)
        elif o == 'erase':
            op = {'o': 'erase', 'a': ch.int(0, 2)}
            if ch.int(0, 2) == 0:
                op['more'] = [ch.int(0, 2) for _ in range(ch.choice([1, 2]))]
            ops.append(op)
        elif o == 'base':
            ops.append({'o': 'base', 'n': ch.int(0, 1)})
        else:
            nd = ch.choice([1, 1, 2, 2, 3])
            fit = bool(ch.int(0, 2))
            if fit:
                idx = [ch.int(0, 30) for _ in range(3)]
            else:
                idx = [ch.choice([-1, 0, 0, 1, 1, 2, 3, 5, 9, 10, 10, 10, 10, 11, 1, 2]) for _ in range(nd)]
            ops.append({'o': o, 'a': ch.int(0, 2), 'i': idx, 'fit': fit})
    return {'u': 'history', 'ty': ch.choice(TYPES), 'ops': ops}


@st.composite
def strat_shape(draw):
    return gen_shape(bc.HypChooser(draw))


@st.composite
def strat_history(draw):
    return gen_history(bc.HypChooser(draw), 25)


def gen_bulk(shard, nshards, tier, seed):
    ch = bc.RandomChooser(random.Random(seed))
    n = 30 if tier == 'quick' else 3000
    for _ in range(n):
        yield gen_shape(ch)
    for _ in range(3 * n):
        yield gen_history(ch, 25)


def units(tier):
    return [
        Unit('small-shapes', 'enum', shards=16, gen=gen_small, exhaustive=True,
             per_case_timeout=60.0),
        Unit('random-bulk', 'enum', shards=16, gen=gen_bulk, per_case_timeout=60.0),
        Unit('shapes', 'hyp', shards=16, examples={'quick': 12, 'thorough': 400},
             strategy=strat_shape, per_case_timeout=60.0),
        Unit('histories', 'hyp', shards=16, examples={'quick': 40, 'thorough': 2000},
             strategy=strat_history, per_case_timeout=60.0),
    ]


REGRESSIONS = [
    {'u': 'shape', 'dims': [2, 3], 'base': 1, 'ty': '%', 'rev': True, 'verify': True, 'box': True},
    {'u': 'shape', 'dims': [30, 3, 2, 1], 'base': None, 'ty': '$', 'rev': False, 'verify': True,
     'box': False},
    # fixed 53d02912: DIM / OPTION BASE 0 / ERASE / OPTION BASE 1 was accepted
    {'u': 'history', 'ty': '$', 'strict': True, 'ops': [
        {'o': 'dim', 'a': 2, 'dims': [3]}, {'o': 'base', 'n': 0}, {'o': 'erase', 'a': 2},
        {'o': 'base', 'n': 1}]},
    {'u': 'history', 'ty': '%', 'ops': [
        {'o': 'dim', 'a': 0, 'dims': [3], 'more': [{'a': 1, 'dims': [2, 2]}, {'a': 2, 'dims': [1]}]},
        {'o': 'put', 'a': 2, 'i': [1], 'fit': False},
        {'o': 'erase', 'a': 0, 'more': [1]},
        {'o': 'get', 'a': 2, 'i': [1], 'fit': False},
        {'o': 'erase', 'a': 2, 'more': [0]},
        {'o': 'dim', 'a': 2, 'dims': [4, 1]}]},
    {'u': 'history', 'ty': '!', 'ops': [
        {'o': 'get', 'a': 0, 'i': [10], 'fit': False},
        {'o': 'get', 'a': 0, 'i': [11], 'fit': False},
        {'o': 'dim', 'a': 0, 'dims': [5]},
        {'o': 'base', 'n': 1},
        {'o': 'erase', 'a': 0},
        {'o': 'dim', 'a': 0, 'dims': [2, 7]},
        {'o': 'put', 'a': 0, 'i': [2, 7], 'fit': False},
        {'o': 'get', 'a': 0, 'i': [2, 8], 'fit': False},
        {'o': 'get', 'a': 1, 'i': [11, 0], 'fit': False}]},
]

KILLS = [
    'arrays.py index: area *= dimensions[i] + 1 - base -> without +1  => shape.aliasing, history.contents',
    'arrays.py check_dim: skip the arity check  => escaped.IndexError@arrays.py:index, bounds.error-missing.range',
    'arrays.py check_dim: auto-dimension 11 instead of 10  => history.contents, bounds.error-missing.implicit',
    "arrays.py check_dim: drop 'i < self._base'  => bounds.error-missing.range / .implicit",
    'arrays.py check_dim: negative subscript raises Subscript out of range  => bounds.wrong-error',
    'arrays.py option_base_: never Duplicate definition  => optionbase.error-missing',
    'arrays.py allocate: no Duplicate definition  => redim.not-duplicate, dim.error-missing',
    'arrays.py erase_: clear an explicit OPTION BASE when the last array goes  => erase.redim-contents, history.contents',
    'arrays.py erase_: unknown array silently ignored  => erase.error-missing',
    'revert 53d02912 (option_base_ keeps _base_set_by_dim)  => optionbase.explicit-forgotten-after-erase',
    'arrays.py erase_: all names checked first, no partial erase (ERASE A,missing)  => dim.spurious-error, escaped.KeyError@arrays.py:erase_',
    'NOT VISIBLE HERE by design: erase_ address-record bookkeeping (C11 observes addresses; C12 only values and errors)',
]
