"""
C23 - RUN, CLEAR and NEW reset state; CHAIN keeps exactly the COMMON variables.

A generated first program builds a random state (scalars and arrays of all four types, literal and
allocated strings, optional near-full string space, DEF FN, DEFINT range, OPTION BASE 1, ON ERROR
trap, RND advanced k times) and performs the action from inside a GOSUB / FOR / WHILE nest (or ENDs
there and the action is given in direct mode). Afterwards the session is probed from outside:
variable values through Session.get_variable, array shape, FN, DEFtype, array base, trap, RND,
NEXT/WEND/RETURN. Oracle: a Python dict model of the assigned constants (CHAIN) and the state of a
fresh session (resets).
"""
import os
from fractions import Fraction

from hypothesis import strategies as st

from vlib.core import Result, Unit
from vlib import harness
from vlib.refinterp import shared_sandbox

ID = 'C23'
LEVEL = 'exploration'
TECHNIQUE = ("Hypothesis-generated state-building programs + reset/CHAIN action; differential "
             "against a fresh session (resets) and a dict model of the assigned constants (CHAIN)")
RULE = ("Random prior state: 1..8 scalars and 0..4 arrays (1..3 dimensions) over % ! # $ with explicit "
        "sigils, literal (program-text) and allocated strings up to 255 bytes, 0..200 filler strings of "
        "255 bytes (near-full memory), DEF FN, DEFINT I-K with an unsigiled variable, OPTION BASE 1, "
        "ON ERROR trap, RND advanced 0..5 times, action executed inside GOSUB/FOR/WHILE nests or from "
        "direct mode. Actions: CLEAR, RUN line, RUN (direct), NEW, CHAIN / CHAIN MERGE with line "
        "number, ALL, DELETE range; COMMON lists: random subsets incl. arrays, repeats, unassigned "
        "names, unsigiled names, split over several statements before/after the CHAIN. Non-trivial: "
        "CHAIN with >= 1 string COMMON and >= 1 non-COMMON variable of the same type, or near-full "
        "memory; resets: prior state has a string, an array and >= 2 of FN/DEFINT/BASE/trap/nest.")
ASSUMPTIONS = [
    "after CHAIN only variables (and DEF FN without ALL, and the loop/GOSUB stacks) are asserted; "
    "DEFtype, OPTION BASE, the error trap and RND after CHAIN are not (manual: base kept, DEFtype "
    "kept only with MERGE; statement silent)",
    "a run that reports Out of memory / Out of string space with > 100 filler strings is counted inconclusive",
    "numeric values are dyadic rationals exactly representable in their type",
]

FIRST_RND = {}


def first_rnd():
    if 'v' not in FIRST_RND:
        with harness.Sess() as s:
            FIRST_RND['v'] = s.evaluate('RND').value
    return FIRST_RND['v']


def lit(v, ty):
    if ty == '$':
        return '"%s"' % v
    if ty == '%':
        return str(v)
    fr = Fraction(v)
    if fr.denominator == 1:
        t = str(fr.numerator)
    else:
        t = repr(float(v))
        if 'e' in t or 'E' in t:
            raise ValueError(v)
    return t + ('#' if ty == '#' else ('!' if ty == '!' and fr.denominator == 1 and
                                       abs(fr.numerator) > 32767 else ''))


def build(case):
    """-> (program lines, P2 text, chain statement or None, model)"""
    lines = []
    n = [10]

    def add(text):
        lines.append('%d %s' % (n[0], text))
        n[0] += 10
        return n[0] - 10
    base = 1 if case.get('base1') else 0
    head = []
    if case.get('defint'):
        head.append('DEFINT I-K')
    if base:
        head.append('OPTION BASE 1')
    if head:
        add(':'.join(head))
    common = case.get('common', [])
    act = case['action']
    cpos = case.get('common_pos', 0)

    def common_stmt(names):
        return 'COMMON ' + ','.join(names)
    half = len(common) // 2 if cpos == 2 else (len(common) if cpos == 0 else 0)
    if act['k'] == 'chain' and common[:half]:
        add(common_stmt(common[:half]))
    model = {'scalars': {}, 'arrays': {}}
    first_assign = n[0]
    for name, ty, dims in case.get('arrays', []):
        add('DIM %s%s(%s)' % (name, ty, ','.join(str(d) for d in dims)))
        model['arrays'][name + ty] = {'dims': dims, 'vals': {}}
    stm = []
    for name, ty, val, kind in case.get('scalars', []):
        if ty == '$' and kind == 'alloc':
            k = min(len(val), 3)
            stm.append('%s$=STRING$(%d,%d)+"%s"' % (name, len(val) - k, ord(val[0]) if val else 65,
                                                     val[len(val) - k:] if k else ''))
            v = (val[0] * (len(val) - k) if val else '') + (val[len(val) - k:] if k else '')
        else:
            stm.append('%s%s=%s' % (name, ty, lit(val, ty)))
            v = val
        model['scalars'][name + ty] = v
    for name, ty, idx, val in case.get('elems', []):
        arr = model['arrays'].get(name + ty)
        if arr is None:
            continue
        ix = tuple(max(base, min(d, i)) for i, d in zip(idx + [0] * 3, arr['dims']))
        if ty == '$' and len(val) > 8:
            stm.append('%s$(%s)=STRING$(%d,%d)' % (name, ','.join(str(i) for i in ix), len(val),
                                                  ord(val[0])))
            val = val[0] * len(val)
        else:
            stm.append('%s%s(%s)=%s' % (name, ty, ','.join(str(i) for i in ix), lit(val, ty)))
        arr['vals'][ix] = val
    if case.get('defint'):
        stm.append('IV=%d' % case.get('iv', 5))
        model['scalars']['IV%'] = case.get('iv', 5)
    cur = ''
    for t in stm:
        if cur and len(cur) + len(t) > 200:
            add(cur)
            cur = ''
        cur = (cur + ':' if cur else '') + t
    if cur:
        add(cur)
    last_assign = n[0] - 10
    fill = case.get('fill', 0)
    if fill:
        add('DIM ZS$(%d):FOR ZQ=%d TO %d:ZS$(ZQ)=STRING$(255,65+ZQ MOD 26):NEXT' % (fill, base, fill))
        model['arrays']['ZS$'] = {'dims': [fill], 'vals': {
            (i,): chr(65 + i % 26) * 255 for i in range(base, fill + 1)}}
        model['scalars']['ZQ!'] = fill + 1
    if case.get('deffn'):
        add('DEF FNA(X)=X*2+1')
    if case.get('onerr'):
        add('ON ERROR GOTO 9000')
    for _ in range(case.get('rnd', 0)):
        add('ZR=RND')
    if case.get('rnd', 0):
        model['scalars']['ZR!'] = None        # value not modelled
    nest = case.get('nest', [])
    if 'gosub' in nest:
        add('GOSUB 500')
        add('END')
    n[0] = 500
    opener = []
    if 'for' in nest:
        opener.append('FOR ZL=1 TO 5')
        model['scalars']['ZL!'] = 1
    if 'while' in nest:
        opener.append('WHILE 1')
    if opener:
        add(':'.join(opener))
    chain = None
    p2 = None
    if act['k'] == 'chain':
        merge = act.get('merge')
        parts = ['CHAIN MERGE "P2"' if merge else 'CHAIN "P2"']
        line = 8000 if merge else (20 if act.get('line') else None)
        tail = []
        if act.get('all'):
            tail.append('ALL')
        if act.get('delete') and merge and last_assign >= first_assign:
            tail.append('DELETE %d-%d' % (first_assign, last_assign))
        if line is not None or tail:
            parts.append(',%s' % ('' if line is None else line))
        if tail:
            parts.append(',' + ','.join(tail))
        chain = ''.join(parts)
        if merge:
            p2 = '8000 ZC=FRE(""):END\r\n'
        else:
            p2 = '10 ZC=FRE(""):END\r\n20 ZC=FRE(""):END\r\n'
        statement = chain
    elif act['k'] == 'clear':
        statement = 'CLEAR'
    elif act['k'] == 'run':
        statement = 'RUN 8000' if (act.get('line') or act.get('where') == 'program') else 'RUN'
    elif act['k'] == 'new':
        statement = 'NEW'
    else:
        raise ValueError(act)
    direct = None
    if act.get('where') == 'program':
        add(statement)
        add('END')
    else:
        add('END')
        direct = statement
    if statement == 'RUN':
        # a plain RUN restarts this program: make it stop at once the second time
        # (ZZ9 is set by the checker before RUN is given... not possible: RUN clears) -> use RUN 8000
        direct = 'RUN 8000'
    # never reached by the program: close the nest textually; the checker jumps here afterwards
    model['closers'] = {}
    if 'while' in nest:
        model['closers']['while'] = add('WEND')
    if 'for' in nest:
        model['closers']['for'] = add('NEXT')
    if nest:
        add('END')
    n[0] = 8000
    add('END')
    if act['k'] == 'chain' and common[half:]:
        add(common_stmt(common[half:]))
    n[0] = 9000
    add('ZE=ERR:RESUME NEXT')
    return lines, p2, direct, model


def expected_after_chain(case, model):
    """Names (with sigils) that must survive: (scalars, arrays)."""
    if case['action'].get('all'):
        return set(model['scalars']), set(model['arrays'])
    sc, ar = set(), set()
    for item in case.get('common', []):
        isarr = item.endswith('()')
        name = item[:-2] if isarr else item
        if name[-1] not in '%!#$':
            if case.get('defint') and name[0] in 'IJK':
                name += '%'
            else:
                name += '!'
        (ar if isarr else sc).add(name)
    return sc, ar


def value_ok(got, want, ty):
    if ty == '$':
        return got == want.encode('latin-1')
    try:
        return Fraction(got) == Fraction(want)
    except (TypeError, ValueError):
        return False


def arr_list(spec, base, ty):
    zero = '' if ty == '$' else 0

    def rec(prefix, dims):
        if not dims:
            return spec['vals'].get(tuple(prefix), zero)
        return [rec(prefix + [i], dims[1:]) for i in range(base, dims[0] + 1)]
    return rec([], spec['dims'])


def flat(x):
    if isinstance(x, list):
        out = []
        for y in x:
            out.extend(flat(y))
        return out
    return [x]


def shape(x):
    s = []
    while isinstance(x, list):
        s.append(len(x))
        x = x[0] if x else None
    return s


def check_case(case):
    res = Result()
    lines, p2, direct, model = build(case)
    text = '\n'.join(lines) + ('\n[direct] ' + direct if direct else '') + (
        '\n[P2] ' + p2.replace('\r\n', ' / ') if p2 else '')
    act = case['action']
    base = 1 if case.get('base1') else 0
    with harness.Sess(sandbox=shared_sandbox(), budget=60000) as s:
        if p2 is not None:
            with open(os.path.join(s.sandbox.z, 'P2.BAS'), 'wb') as f:
                f.write(p2.encode('latin-1'))
        for ln in lines:
            o = s.execute(ln)
            if o.kind != 'ok' or o.errors:
                res.fail('harness.store-error', '%r -> %r' % (ln, o))
                return res
        o = s.execute('RUN')
        outs = [o]
        if o.kind == 'ok' and direct and not o.errors:
            o = s.execute(direct)
            outs.append(o)
        for o in outs:
            if o.kind == 'escaped':
                res.fail('escaped.%s' % o.key(), '%s\n%s' % (text, o.tb))
                return res
            if o.kind != 'ok':
                res.inconclusive = True
                return res
        errs = [e for o in outs for e in o.errors]
        if not errs and case.get('onerr'):
            # an error raised by the action itself was swallowed by the program's own trap
            ze = s.get('ZE!')
            if ze:
                errs = [(int(ze), 'trapped')]
        if errs:
            if errs[0][0] in (7, 14) and case.get('fill', 0) > 100:
                res.inconclusive = True
                res.label('out-of-memory-near-full')
                return res
            res.fail('action.error', '%s\nunexpected error %r' % (text, errs))
            return res
        res.label('action:%s%s' % (act['k'], '-' + act.get('where', 'direct')))
        if act['k'] == 'chain':
            res.label('chain:%s%s%s' % ('merge' if act.get('merge') else 'plain',
                                        '+all' if act.get('all') else '',
                                        '+delete' if act.get('delete') and act.get('merge') else ''))
            keep_s, keep_a = expected_after_chain(case, model)
            if case.get('fill', 0) and 'ZS$' in keep_a:
                res.label('near-full-common')
        else:
            keep_s, keep_a = set(), set()
        # 1. variables
        strs_common = strs_other = 0
        for name, want in sorted(model['scalars'].items()):
            ty = name[-1]
            got = s.get(name)
            if name in keep_s:
                strs_common += ty == '$'
                if want is None:
                    continue
                if not value_ok(got, want, ty):
                    res.fail('chain.common-scalar-lost' if act['k'] == 'chain' else 'reset.scalar',
                             '%s\n%s = %r, expected %r' % (text, name, got, want))
            else:
                strs_other += ty == '$'
                if not value_ok(got, '' if ty == '$' else 0, ty):
                    key = 'chain.noncommon-scalar-survives' if act['k'] == 'chain' else \
                        'reset.%s.scalar-survives' % act['k']
                    res.fail(key, '%s\n%s = %r after the action, expected empty' % (text, name, got))
        for name, spec in sorted(model['arrays'].items()):
            ty = name[-1]
            got = s.get(name + '()')
            if name in keep_a:
                want = arr_list(spec, base, ty)
                if shape(got) != shape(want):
                    res.fail('chain.common-array-shape', '%s\n%s(): shape %r, expected %r' % (
                        text, name, shape(got), shape(want)))
                else:
                    bad = [(g, w) for g, w in zip(flat(got), flat(want)) if not value_ok(g, w, ty)]
                    if bad:
                        res.fail('chain.common-array-lost', '%s\n%s(): %d elements differ, first %r '
                                 'expected %r' % (text, name, len(bad), bad[0][0], bad[0][1]))
                # still dimensioned: another shape is refused
                o = s.execute('DIM %s(%d)' % (name, 7))
                if o.err != 10:
                    res.fail('chain.common-array-undimensioned', '%s\nDIM %s(7) -> %r' % (
                        text, name, o.errors))
            else:
                if got != []:
                    key = 'chain.noncommon-array-survives' if act['k'] == 'chain' else \
                        'reset.%s.array-survives' % act['k']
                    res.fail(key, '%s\n%s() still dimensioned: shape %r' % (text, name, shape(got)))
                else:
                    o = s.execute('DIM %s(%d,2)' % (name, 3))
                    if o.errors or o.kind != 'ok':
                        res.fail('reset.redim-refused', '%s\nDIM %s(3,2) -> %r' % (text, name, o))
        # 2. a garbage collection after the action must not break kept strings
        if keep_s or keep_a:
            s.execute('ZC=FRE("")')
            for name in sorted(keep_s):
                want = model['scalars'].get(name)
                if name[-1] == '$' and want is not None and not value_ok(s.get(name), want, '$'):
                    res.fail('chain.common-string-after-gc', '%s\n%s = %r after FRE(""), expected '
                             '%r' % (text, name, s.get(name), want))
        reset = act['k'] != 'chain'
        # 3. DEF FN
        if case.get('deffn') and (reset or not act.get('all')):
            o = s.execute('ZF=FNA(1)')
            if o.err != 18:
                res.fail('%s.deffn-survives' % ('reset.' + act['k'] if reset else 'chain'),
                         '%s\nZF=FNA(1) -> %r, ZF=%r' % (text, o.errors, s.get('ZF!')))
        if reset:
            # 4. DEFtype back to single
            if case.get('defint'):
                s.execute('IQ=1.5')
                if s.get('IQ!') != 1.5 or s.get('IQ%') != 0:
                    res.fail('reset.%s.deftype-survives' % act['k'], '%s\nIQ=1.5 -> IQ!=%r IQ%%=%r' % (
                        text, s.get('IQ!'), s.get('IQ%')))
            # 5. array base back to 0
            if base:
                o = s.execute('DIM ZB(2):ZB(0)=1')
                if o.errors:
                    res.fail('reset.%s.option-base-survives' % act['k'], '%s\nDIM ZB(2):ZB(0)=1 -> %r'
                             % (text, o.errors))
                o = s.execute('OPTION BASE 0')
            # 6. error trap gone: a direct error prints its message
            if case.get('onerr'):
                o = s.execute('ERROR 5')
                if o.errors != [(5, None)]:
                    res.fail('reset.%s.error-trap-survives' % act['k'],
                             '%s\nERROR 5 in direct mode -> output %r' % (text, o.output))
            # 7. RND restarts
            v = s.evaluate('RND').value
            if v != first_rnd():
                res.fail('reset.%s.rnd-state-survives' % act['k'], '%s\nRND = %r, a fresh session '
                         'gives %r' % (text, v, first_rnd()))
        # 8. loop and subroutine stacks (RETURN last: a surviving record would jump into the program)
        probes = []
        if act['k'] in ('clear', 'run'):
            # loop records are matched by position: re-enter the program's own WEND / NEXT
            for what, code in (('while', 30), ('for', 1)):
                if what in model['closers']:
                    ln = model['closers'][what]
                    probes.append(('GOTO %d' % ln, code, what, ln))
        # (a direct-mode WEND discards non-matching records, so it comes after the positional probe)
        probes += [('NEXT', 1, 'for', None), ('WEND', 30, 'while', None), ('RETURN', 3, 'gosub', None)]
        for stmt_, code, what, eline in probes:
            o = s.execute(stmt_)
            if o.kind == 'escaped':
                res.fail('escaped.%s' % o.key(), '%s\n%s' % (text, o.tb))
            elif o.kind == 'ok' and o.errors[:1] != [(code, eline)]:
                key = '%s.%s-stack-survives' % (('reset.' + act['k']) if reset else 'chain', what)
                res.fail(key, '%s\n%s in direct mode -> %r %r (expected error %d)' % (
                    text, stmt_, o.output, o.errors, code))
        # NEW: the program is gone
        if act['k'] == 'new':
            o = s.execute('LIST')
            if o.output.strip():
                res.fail('reset.new.program-survives', '%s\nLIST -> %r' % (text, o.output))
    cats = sum(bool(case.get(k)) for k in ('deffn', 'defint', 'base1', 'onerr')) + bool(
        case.get('nest'))
    if act['k'] == 'chain':
        res.nt((strs_common >= 1 and strs_other >= 1) or case.get('fill', 0) > 100)
    else:
        has_str = any(t == '$' for _n, t, _v, _k in case.get('scalars', []))
        res.nt(has_str and bool(case.get('arrays')) and cats >= 2)
    for k in ('deffn', 'defint', 'base1', 'onerr'):
        if case.get(k):
            res.label('state:' + k)
    for k in case.get('nest', []):
        res.label('nest:' + k)
    f = case.get('fill', 0)
    res.label('fill:%s' % ('0' if not f else '<=100' if f <= 100 else '>100'))
    if act['k'] == 'chain':
        res.label('common-strings:%d' % min(strs_common, 3))
    return res


# --------------------------------------------------------------------------------------------
# generators

S_NAMES = ['A1', 'B2', 'C3', 'D4', 'E5', 'F6', 'G7', 'H8']
A_NAMES = ['L1', 'M2', 'N3', 'P4', 'A1']
CHARS = 'ABCXYZabc xyz0123456789.,;:!#%&()*+-/<=>?@[]^_{}~'


def value_for(ty):
    if ty == '%':
        return st.one_of(st.integers(-32768, 32767), st.sampled_from([1, -1, 32767, -32768, 255]))
    if ty == '!':
        return st.builds(lambda m, e: m * 2.0 ** e, st.integers(-(2 ** 20), 2 ** 20),
                         st.integers(-8, 3)).filter(lambda v: v != 0)
    if ty == '#':
        return st.builds(lambda m, e: m * 2.0 ** e, st.integers(-(2 ** 40), 2 ** 40),
                         st.integers(-10, 3)).filter(lambda v: v != 0)
    return st.one_of(
        st.text(CHARS, min_size=1, max_size=20),
        st.builds(lambda c, n: c * n, st.sampled_from('ABqz'), st.sampled_from([1, 40, 120, 190])))


def strat_case(kind):
    ty = st.sampled_from(['%', '!', '#', '$', '$', '$'])

    def scalar(name):
        return ty.flatmap(lambda t: st.builds(lambda v, k: [name, t, v, k], value_for(t),
                                              st.sampled_from(['lit', 'alloc'])))
    scalars = st.lists(st.sampled_from(S_NAMES), min_size=3, max_size=8, unique=True).flatmap(
        lambda names: st.tuples(*[scalar(nm) for nm in names])).map(list)
    arrays = st.lists(st.sampled_from(A_NAMES), min_size=1, max_size=4, unique=True).flatmap(
        lambda names: st.tuples(*[st.builds(lambda t, d, nm=nm: [nm, t, d], ty,
                                            st.lists(st.integers(1, 4), min_size=1, max_size=3))
                                  for nm in names])).map(list)

    def build_case(scalars, arrays, elems, flags, rnd, nest, fill, action, cpick, cpos, extra):
        case = {'scalars': scalars, 'arrays': arrays, 'elems': [], 'rnd': rnd, 'nest': nest,
                'fill': fill, 'action': action, 'common_pos': cpos}
        for k, v in zip(('deffn', 'defint', 'base1', 'onerr'), flags):
            case[k] = v
        for (ai, idx, seed) in elems:
            if arrays:
                nm, t, _d = arrays[ai % len(arrays)]
                if t == '$':
                    val = CHARS[seed % 40] * (1 + seed % 30) if seed % 3 else CHARS[seed % 40:][:7]
                elif t == '%':
                    val = seed - 500
                else:
                    val = (seed - 500) / 8.0
                if val != 0 and val != '':
                    case['elems'].append([nm, t, idx, val])
        pool = [nm + t for nm, t, _v, _k in scalars] + [nm + t + '()' for nm, t, _d in arrays]
        if case.get('defint'):
            pool.append('IV')
        if fill:
            pool.append('ZS$()')
        common = [pool[i % len(pool)] for i in cpick] if pool else []
        common += extra
        case['common'] = common
        return case
    if kind == 'chain':
        action = st.builds(lambda merge, all_, dele, line, where:
                           {'k': 'chain', 'merge': merge, 'all': all_, 'delete': dele, 'line': line,
                            'where': where},
                           st.booleans(), st.sampled_from([False, False, False, True]),
                           st.booleans(), st.booleans(), st.sampled_from(['program', 'direct']))
    else:
        action = st.builds(lambda k, where, line: {'k': k, 'where': where, 'line': line},
                           st.sampled_from(['clear', 'run', 'new']),
                           st.sampled_from(['program', 'direct']), st.booleans())
    return st.builds(
        build_case, scalars, arrays,
        st.lists(st.tuples(st.integers(0, 3), st.lists(st.integers(0, 4), min_size=3, max_size=3),
                           st.integers(0, 1000)), max_size=8),
        st.tuples(st.booleans(), st.booleans(), st.booleans(), st.booleans()),
        st.integers(0, 5),
        st.lists(st.sampled_from(['gosub', 'for', 'while']), unique=True, max_size=3),
        st.sampled_from([0] * 8 + [40, 120, 200, 225]),
        action, st.lists(st.integers(0, 30), min_size=1, max_size=8), st.integers(0, 2),
        st.lists(st.sampled_from(['X9', 'Y9$', 'W9%()', 'D4', 'V9#']), max_size=2))


def units(tier):
    return [
        Unit('chain', 'hyp', shards=16, examples={'quick': 150, 'thorough': 6000},
             strategy=lambda: strat_case('chain')),
        Unit('reset', 'hyp', shards=16, examples={'quick': 100, 'thorough': 4000},
             strategy=lambda: strat_case('reset')),
    ]


REGRESSIONS = [
    # fixed 1f0151ca: CLEAR inside a subroutine left the GOSUB stack intact (RETURN still worked)
    {'scalars': [['A1', '%', 5, 'lit']], 'arrays': [], 'elems': [], 'rnd': 0, 'nest': ['gosub'],
     'fill': 0, 'action': {'k': 'clear', 'where': 'program', 'line': False}, 'common_pos': 0,
     'common': []},
]
KILLS = [
    "memory.py preserve_commons: scalar strings keep their old pointers (no copy_to) -> escaped.KeyError@strings.py:_retrieve, chain.common-scalar-lost, chain.common-string-after-gc",
    "memory.py preserve_commons: array string pointers not rewritten -> escaped.KeyError@strings.py:_retrieve, chain.common-array-lost",
    "implementation.py _clear_all: skip randomiser.clear() -> reset.{clear,run,new}.rnd-state-survives",
    "implementation.py _clear_all: skip user_functions.clear() -> chain.deffn-survives, reset.*.deffn-survives",
    "memory.py clear: keep DEFtype -> reset.*.deftype-survives; keep OPTION BASE -> reset.*.option-base-survives",
    "interpreter.py clear: skip _init_error_trapping -> reset.*.error-trap-survives (and stack buckets)",
    "interpreter.py clear: while_stack not emptied -> reset.clear.while-stack-survives (positional probe GOTO <WEND line>)",
    "memory.py preserve_commons: arrays never preserved / ALL keeps scalars only -> chain.common-array-shape",
    "implementation.py chain_: drop strings.fix_temporaries() -> escaped.KeyError@strings.py:_retrieve",
    "interpreter.py gather_commons: only the first COMMON statement -> chain.common-scalar-lost",
    "interpreter.py clear: gosub_stack not emptied (the tree before fix 1f0151ca) -> reset.clear.gosub-stack-survives",
    "SURVIVED (equivalent): sort order reverse=False in the string copy of preserve_commons - values are preserved in either order; only the layout of string space differs",
]
