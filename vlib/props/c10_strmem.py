"""
C10 - string variables keep their values through any memory history; FRE is consistent.

A case is an operation list interpreted against one fresh session and a Python model (dict of
bytes values). After every operation every live string variable and array element is read back
and compared with the model. Memory is shrunk with CLEAR ,n so that garbage collections happen
every few statements. In 'prog' mode every statement is a stored program line (so its literals are
code-resident) executed with GOTO <line>; in 'direct' mode statements are typed directly (all
non-empty strings live in string space).
"""
import random

from hypothesis import strategies as st

from vlib.core import Result, Unit
from vlib import harness
from vlib import bstr_common as bc

ID = 'C10'
LEVEL = 'exploration'
TECHNIQUE = ("model-based stateful testing: generated operation lists (Hypothesis + seeded random) "
             "interpreted against a dict-of-bytes model with read-back of every variable after "
             "every step; FRE checked against the documented low-memory pointers")
RULE = ("Histories of 5..60 (thorough ..300) operations over scalars A$..D$, P$(n) and Q$(n,m): "
        "LET with expressions built from literals, variables, +, LEFT$/RIGHT$/MID$ (counts 0, "
        "LEN+1 and other early-return boundaries), STRING$/SPACE$/CHR$, INSTR and LEN as numeric "
        "arguments and a user function FNS$; MID$=, LSET, RSET (incl. self-overlap), SWAP, "
        "ERASE+DIM, expression evaluation without assignment, FRE(\"\"), FRE(0), CLEAR in the "
        "forms CLEAR / CLEAR ,n / CLEAR ,n,s / CLEAR ,,s / CLEAR e,n (after each, PEEK(&H2C..2D) "
        "and FRE(\"\") must show the requested size), and 'fit' operations that steer to the "
        "allocation boundary: uncollected free space FRE(0) == size-1, size, size+1 with "
        "reclaimable garbage (the allocation must succeed after a collection), and "
        "post-collection free space == size-1, size, size+1, size+2; "
        "string space limited to 120..4000 bytes (or default) so that collections happen inside "
        "expressions; statements that fail with String too long / Illegal function call / Out of "
        "string space part-way. Non-trivial: at least one garbage collection ran while a non-empty "
        "string variable assigned earlier was live (and was read back afterwards); distinct = "
        "distinct operation list.")
ASSUMPTIONS = [
    "the memory size and stack size are the model's: manual defaults 65534 and 512, then whatever "
    "the last CLEAR requested; PEEK(&H2C..2D) must equal that memory size after every CLEAR",
    "an allocation of n bytes must succeed when more than n bytes are free after a collection; "
    "with exactly n bytes free either outcome is accepted (the unchanged tree keeps one spare "
    "byte: check_free refuses when free <= n), with fewer it must fail",
    "FRE(\"\") must equal memory size - stack size - 2 - PEEK(&H35C..5D) - sum of live string "
    "lengths (direct mode; all non-empty values live in string space); in prog mode code-resident "
    "literals take no string space, so only the lower bound is asserted",
    "FRE(0) (no collection) may be anything between 0 and the post-collection value",
    "Out of string space / Out of memory is accepted only when the model's post-collection free "
    "space is <= the bytes of all intermediate string results of the statement (upper bound of "
    "what it can need); a success is never questioned",
    "when the model finds several errors in one statement any of their codes is accepted",
    "garbage collections are counted by wrapping the session's own collect_garbage instance "
    "attribute; the count is used for the non-trivial label only, never for the verdict",
    "CLEAR ,n is only issued with n <= the current memory size (the memory limit cannot grow)",
]

SCALARS = ['A$', 'B$', 'C$', 'D$']
FN_LINE = b'10 DEF FNS$(X$)=MID$(X$,2)+X$:END'
STACK = 512


class Stop(Exception):
    """End interpretation of the case (after recording a failure or an accepted dead end)."""


# --------------------------------------------------------------------------------------------
# model

class Model(object):

    def __init__(self):
        self.reset(4, (2, 2))

    def reset(self, pdim, qdim):
        self.sc = [b''] * 4
        self.pdim = pdim
        self.qdim = qdim
        self.p = [b''] * (pdim + 1)
        self.q = [[b''] * (qdim[1] + 1) for _ in range(qdim[0] + 1)]
        self.fill = [b''] * 4      # F0$..F3$: filler variables of the 'fit' operations

    def resolve(self, t):
        if t[0] == 's':
            return ('s', t[1] % 4)
        if t[0] == 'p':
            return ('p', t[1] % (self.pdim + 1))
        return ('q', t[1] % (self.qdim[0] + 1), t[2] % (self.qdim[1] + 1))

    def name(self, t):
        t = self.resolve(t)
        if t[0] == 's':
            return SCALARS[t[1]]
        if t[0] == 'p':
            return 'P$(%d)' % t[1]
        return 'Q$(%d,%d)' % (t[1], t[2])

    def get(self, t):
        t = self.resolve(t)
        if t[0] == 's':
            return self.sc[t[1]]
        if t[0] == 'p':
            return self.p[t[1]]
        return self.q[t[1]][t[2]]

    def set(self, t, v):
        t = self.resolve(t)
        if t[0] == 's':
            self.sc[t[1]] = v
        elif t[0] == 'p':
            self.p[t[1]] = v
        else:
            self.q[t[1]][t[2]] = v

    def live_bytes(self):
        return (sum(len(v) for v in self.sc) + sum(len(v) for v in self.p)
                + sum(len(v) for row in self.q for v in row) + sum(len(v) for v in self.fill))

    def snapshot(self):
        return (list(self.sc), list(self.p), [list(r) for r in self.q])


class Acc(object):
    """Accumulates possible error codes and allocated bytes while the model evaluates."""

    def __init__(self):
        self.errs = set()
        self.alloc = 0


def m_num(x, m, acc):
    """Numeric argument -> int or None."""
    if isinstance(x, int):
        return x
    if x[0] == 'lenof':
        v = m_expr(x[1], m, acc)
        return None if v is None else len(v) + x[2]
    if x[0] == 'instr':
        i = 1 if x[1] is None else m_num(x[1], m, acc)
        s = m_expr(x[2], m, acc)
        t = m_expr(x[3], m, acc)
        if i is not None and not 1 <= i <= 255:
            acc.errs.add(5)
            i = None
        if i is None or s is None or t is None:
            return None
        if not s or i > len(s):
            return 0
        if not t:
            return i
        return s.find(t, i - 1) + 1
    raise ValueError(x)


def m_arg(x, lo, hi, m, acc):
    n = m_num(x, m, acc)
    if n is None:
        return None
    if not lo <= n <= hi:
        acc.errs.add(5)
        return None
    return n


def m_expr(e, m, acc):
    """String expression -> bytes or None (error recorded in acc.errs)."""
    k = e[0]
    if k == 'lit':
        v = e[1].encode('latin-1')
        acc.alloc += len(v)
        return v
    if k == 'var':
        return m.get(e[1])
    if k == 'cat':
        a = m_expr(e[1], m, acc)
        b = m_expr(e[2], m, acc)
        if a is None or b is None:
            return None
        if len(a) + len(b) > 255:
            acc.errs.add(15)
            return None
        acc.alloc += len(a) + len(b)
        return a + b
    if k in ('left', 'right'):
        s = m_expr(e[1], m, acc)
        n = m_arg(e[2], 0, 255, m, acc)
        if s is None or n is None:
            return None
        v = s[:n] if k == 'left' else (s[len(s) - n:] if n < len(s) else s)
        if n == 0:
            v = b''
        acc.alloc += len(v)
        return v
    if k == 'mid':
        s = m_expr(e[1], m, acc)
        p = m_arg(e[2], 1, 255, m, acc)
        n = 255 if e[3] is None else m_arg(e[3], 0, 255, m, acc)
        if s is None or p is None or n is None:
            return None
        v = s[p - 1:p - 1 + n]
        acc.alloc += len(v)
        return v
    if k == 'string':
        n = m_arg(e[1], 0, 255, m, acc)
        c = m_arg(e[2], 0, 255, m, acc)
        if n is None or c is None:
            return None
        acc.alloc += n + 1
        return bytes([c]) * n
    if k == 'strings':
        n = m_arg(e[1], 0, 255, m, acc)
        s = m_expr(e[2], m, acc)
        if n is None or s is None:
            return None
        if not s:
            # STRING$(n, "") is C09's subject; never generated on purpose, accept either way
            acc.errs.add(5)
            return None
        acc.alloc += n + 1
        return s[:1] * n
    if k == 'space':
        n = m_arg(e[1], 0, 255, m, acc)
        if n is None:
            return None
        acc.alloc += n
        return b' ' * n
    if k == 'chr':
        c = m_arg(e[1], 0, 255, m, acc)
        if c is None:
            return None
        acc.alloc += 1
        return bytes([c])
    if k == 'fn':
        x = m_expr(e[1], m, acc)
        if x is None:
            return None
        # FNS$(X$) = MID$(X$,2)+X$ ; the argument is copied into X$
        acc.alloc += len(x)
        tail = x[1:]
        acc.alloc += len(tail)
        if len(tail) + len(x) > 255:
            acc.errs.add(15)
            return None
        acc.alloc += len(tail) + len(x)
        return tail + x
    raise ValueError(e)


# --------------------------------------------------------------------------------------------
# rendering

def r_num(x, m):
    if isinstance(x, int):
        return b'%d' % x
    if x[0] == 'lenof':
        return b'(LEN(%s)%+d)' % (r_expr(x[1], m), x[2])
    if x[0] == 'instr':
        if x[1] is None:
            return b'INSTR(%s,%s)' % (r_expr(x[2], m), r_expr(x[3], m))
        return b'INSTR(%s,%s,%s)' % (r_num(x[1], m), r_expr(x[2], m), r_expr(x[3], m))
    raise ValueError(x)


def r_expr(e, m):
    k = e[0]
    if k == 'lit':
        return b'"' + e[1].encode('latin-1') + b'"'
    if k == 'var':
        return m.name(e[1]).encode()
    if k == 'cat':
        # parenthesised so that BASIC evaluates (and fails) in the order of the tree
        return b'(%s+%s)' % (r_expr(e[1], m), r_expr(e[2], m))
    if k == 'left':
        return b'LEFT$(%s,%s)' % (r_expr(e[1], m), r_num(e[2], m))
    if k == 'right':
        return b'RIGHT$(%s,%s)' % (r_expr(e[1], m), r_num(e[2], m))
    if k == 'mid':
        if e[3] is None:
            return b'MID$(%s,%s)' % (r_expr(e[1], m), r_num(e[2], m))
        return b'MID$(%s,%s,%s)' % (r_expr(e[1], m), r_num(e[2], m), r_num(e[3], m))
    if k == 'string':
        return b'STRING$(%s,%s)' % (r_num(e[1], m), r_num(e[2], m))
    if k == 'strings':
        return b'STRING$(%s,%s)' % (r_num(e[1], m), r_expr(e[2], m))
    if k == 'space':
        return b'SPACE$(%s)' % r_num(e[1], m)
    if k == 'chr':
        return b'CHR$(%s)' % r_num(e[1], m)
    if k == 'fn':
        return b'FNS$(%s)' % r_expr(e[1], m)
    raise ValueError(e)


def statement_text(op, m):
    """BASIC text of a let/midset/lset/rset/swap/eval op (None for the others)."""
    o = op['o']
    if o == 'let':
        return b'%s=%s' % (m.name(op['t']).encode(), r_expr(op['e'], m))
    if o == 'midset':
        if op.get('n') is None:
            return b'MID$(%s,%s)=%s' % (m.name(op['t']).encode(), r_num(op['p'], m),
                                        r_expr(op['e'], m))
        return b'MID$(%s,%s,%s)=%s' % (m.name(op['t']).encode(), r_num(op['p'], m),
                                       r_num(op['n'], m), r_expr(op['e'], m))
    if o == 'lset':
        return b'LSET %s=%s' % (m.name(op['t']).encode(), r_expr(op['e'], m))
    if o == 'rset':
        return b'RSET %s=%s' % (m.name(op['t']).encode(), r_expr(op['e'], m))
    if o == 'swap':
        return b'SWAP %s,%s' % (m.name(op['t']).encode(), m.name(op['u']).encode())
    if o == 'eval':
        return b'N%%=LEN(%s)' % r_expr(op['e'], m)
    return None


# --------------------------------------------------------------------------------------------
# interpretation

class Runner(object):

    def __init__(self, case, res):
        self.case = case
        self.res = res
        self.prog = case.get('mode') == 'prog'
        self.m = Model()
        self.sess = None
        self.gc_count = 0
        self.gc_with_live = 0
        self.in_op = False
        self.rot = 0
        self.total = 65534          # memory size: manual default, then the last CLEAR ,n
        self.stack = 512            # stack size: manual default, then the last CLEAR ,,s
        self.op_aliases = False
        self.cur_op = None
        self.gc_in_op = False
        self.pending_after_error = False
        self.aliased_gc = False     # a collection ran while the statement held aliased pointers
        self.after_error = False    # some earlier statement ended with a BASIC error

    SUFFIXED = ('value.', 'fre.', 'oom.', 'stmt.', 'escaped.KeyError@strings.py')

    def fail(self, key, msg):
        # regions of the listed collector defects get their own bucket keys (see findings):
        #  .aliased-gc  a collection ran inside a statement whose expression referenced variables
        #               or FNS$ (strings referenced by several pointers are copied several times)
        #  .after-error an earlier statement failed (its operand stack stays registered)
        if key.startswith(self.SUFFIXED):
            if self.prog and self.cur_op == 'midset' and self.gc_in_op:
                # MID$= on a code-resident target copies it to string space; a collection at
                # that moment lost the (unreferenced) temporary source (fixed 1c276ed0)
                key += '.midset-copy-gc'
            elif self.aliased_gc:
                key += '.aliased-gc'
            elif self.after_error:
                key += '.after-error'
        self.res.fail(key, msg)
        raise Stop()

    # -- session plumbing

    def run(self, text, what):
        o = self.sess.execute(text)
        if o.kind == 'budget':
            self.res.inconclusive = True
            raise Stop()
        if o.kind != 'ok':
            self.fail(bc.escaped_key(o), '%s %r: %s' % (what, text, (o.tb or '')[-600:]))
        return o

    def evaluate(self, text):
        o = self.sess.evaluate(text)
        if o.kind == 'budget':
            self.res.inconclusive = True
            raise Stop()
        if o.kind != 'ok':
            self.fail(bc.escaped_key(o), 'evaluate %r: %s' % (text, (o.tb or '')[-600:]))
        if o.errors:
            self.fail('observe.error', 'evaluate %r -> error %r' % (text, o.errors))
        return o.value

    def peek16(self, addr):
        return int(self.evaluate(b'PEEK(%d)' % addr)) + 256 * int(
            self.evaluate(b'PEEK(%d)' % (addr + 1)))

    def setup_vars(self):
        """(Re)create the variables after the start of the case or a CLEAR."""
        m = self.m
        o = self.run(b'A$="":B$="":C$="":D$="":F0$="":F1$="":F2$="":F3$="":N%%=0:'
                     b'DIM P$(%d),Q$(%d,%d)' % (
            m.pdim, m.qdim[0], m.qdim[1]), 'setup')
        if o.errors:
            # memory too small even for the variables: nothing to test
            self.res.label('setup-failed:%d' % o.err)
            raise Stop()
        o = self.run(b'GOTO 10', 'setup')
        if o.errors:
            self.res.label('setup-failed:%d' % o.err)
            raise Stop()

    def install_gc_counter(self):
        strings = self.sess.impl.memory.strings
        orig = strings.collect_garbage
        me = self

        def counted(string_ptrs):
            me.gc_count += 1
            if me.in_op:
                me.gc_in_op = True
            if me.in_op and me.m.live_bytes():
                me.gc_with_live += 1
            if me.in_op and me.op_aliases:
                me.aliased_gc = True
            return orig(string_ptrs)
        strings.collect_garbage = counted

    def model_free(self):
        """Free bytes after a collection according to the documented pointers and the model."""
        # the memory and stack sizes are the model's (requested with CLEAR, manual defaults
        # 65534 / 512), not read back from the implementation
        top = self.total
        arrend = self.peek16(0x35c)
        return top - self.stack - 2 - arrend - self.m.live_bytes(), top, arrend

    def clear_to(self, slack, form='n', newstack=None, fixed_size=None):
        """
        CLEAR in one of its forms, leaving about `slack` bytes for strings (None = size alone):
        'n' CLEAR ,n   'ns' CLEAR ,n,s   's' CLEAR ,,s   'en' CLEAR e,n   'plain' CLEAR
        """
        m = self.m
        varstart = self.peek16(0x358)
        # variables and arrays recreated by setup_vars: measured generously
        overhead = (8 * 7 + 8 + (7 + 2 + 3 * (m.pdim + 1))
                    + (7 + 4 + 3 * (m.qdim[0] + 1) * (m.qdim[1] + 1)) + 60)
        stack = self.stack
        if form in ('ns', 's') and newstack:
            # a stack size that still leaves room below the current memory size
            if self.total - newstack - 2 - varstart - overhead >= 100:
                stack = newstack
        size = None
        if slack is not None and form in ('n', 'ns', 'en'):
            size = varstart + overhead + stack + 2 + slack
            if size >= self.total:
                size = None
        if fixed_size and fixed_size < self.total and form in ('n', 'ns', 'en'):
            size = fixed_size
            slack = slack or 0
        if form == 'en' and size is not None:
            text = b'CLEAR %d,%d' % (slack % 7, size)
        elif form == 'ns' and size is not None:
            text = b'CLEAR ,%d,%d' % (size, stack)
        elif form == 'n' and size is not None:
            text = b'CLEAR ,%d' % size
        elif form in ('ns', 's') and stack != self.stack:
            text = b'CLEAR ,,%d' % stack
        else:
            text = b'CLEAR'
            stack = self.stack
        self.res.label('clear-form:' + ('e,n' if text[6:7].isdigit() else
                                        ',n,s' if text.count(b',') == 2 and size else
                                        ',,s' if text.count(b',') == 2 else
                                        ',n' if size else 'plain'))
        o = self.run(text, 'clear')
        if o.errors:
            self.fail('clear.error', '%r -> %r' % (text, o.errors))
        if size is not None:
            self.total = size
        self.stack = stack
        # the documented pointer to the end of BASIC's memory must show the requested size
        got = self.peek16(0x2c)
        if got != self.total:
            self.fail('clear.size-not-set', 'after %r PEEK(&H2C..2D) = %d, requested/kept memory '
                      'size is %d' % (text, got, self.total))
        self.last_clear = text

    def check_clear_fre(self):
        """After CLEAR (and re-creating the empty variables) FRE must match the requested size."""
        fre = self.evaluate(b'FRE("")')
        exp, top, arrend = self.model_free()
        if fre != exp:
            self.fail('clear.fre-mismatch', 'after %r: FRE("") = %r, expected %d = memory size %d '
                      '- stack %d - 2 - end of arrays %d' % (
                          self.last_clear, fre, exp, top, self.stack, arrend))

    # -- checks

    def check_values(self, where):
        m = self.m
        try:
            got_s = [self.sess.get(n) for n in SCALARS]
            got_p = self.sess.get('P$()')
            got_q = self.sess.get('Q$()')
        except harness.BudgetExhausted:
            self.res.inconclusive = True
            raise Stop()
        except Exception as e:      # noqa: B902 - an escaped exception on read-back is a finding
            self.fail(bc.exc_key(e), 'reading variables back after %s: %r' % (where, e))
        for i, n in enumerate(SCALARS):
            if got_s[i] != m.sc[i]:
                self.fail('value.scalar', '%s after %s: %r, model %r' % (n, where, got_s[i], m.sc[i]))
        if got_p != m.p:
            self.fail('value.array1', 'P$() after %s: %r, model %r' % (where, got_p, m.p))
        if got_q != m.q:
            self.fail('value.array2', 'Q$() after %s: %r, model %r' % (where, got_q, m.q))
        try:
            got_f = [self.sess.get('F%d$' % i) for i in range(4)]
        except Exception as e:      # noqa: B902
            self.fail(bc.exc_key(e), 'reading variables back after %s: %r' % (where, e))
        if got_f != m.fill:
            self.fail('value.scalar', 'F0$..F3$ after %s: %r, model %r' % (
                where, [v[:20] for v in got_f], [v[:20] for v in m.fill]))
        # one variable per check is also read from BASIC (expression path), in rotation
        self.rot += 1
        k = self.rot
        cands = ([['s', i] for i in range(4)] + [['p', i] for i in range(len(m.p))]
                 + [['q', i, j] for i in range(len(m.q)) for j in range(len(m.q[i]))])
        t = cands[(k * 5) % len(cands)]
        v = self.evaluate(m.name(t).encode())
        if v != m.get(t):
            self.fail('value.basic-read', '%s after %s evaluates to %r, model %r' % (
                m.name(t), where, v, m.get(t)))

    def check_fre(self, collect, where):
        if collect:
            fre = self.evaluate(b'FRE("")')
            exp, top, arrend = self.model_free()
            self.res.label('fre-collect')
            if self.prog:
                if fre < exp:
                    self.fail('fre.below-model', 'FRE("") after %s = %r < %d (top %d, arrays end '
                              '%d, live %d)' % (where, fre, exp, top, arrend, self.m.live_bytes()))
            elif fre != exp:
                self.fail('fre.mismatch', 'FRE("") after %s = %r, expected %d (top %d, arrays end '
                          '%d, live %d)' % (where, fre, exp, top, arrend, self.m.live_bytes()))
            # an immediate FRE(0) must agree with the collected value
            fre0 = self.evaluate(b'FRE(0)')
            if fre0 != fre:
                self.fail('fre.unstable', 'FRE(0) right after FRE("") = %r, was %r' % (fre0, fre))
        else:
            fre0 = self.evaluate(b'FRE(0)')
            exp, top, arrend = self.model_free()
            self.res.label('fre-nocollect')
            if fre0 > exp and not self.prog:
                self.fail('fre.above-model', 'FRE(0) after %s = %r > post-collection %d' % (
                    where, fre0, exp))
            if fre0 < 0:
                self.fail('fre.negative', 'FRE(0) after %s = %r' % (where, fre0))

    # -- operations

    def exec_statement(self, idx, op):
        """Run a statement op -> Outcome."""
        if self.prog:
            return self.run(b'GOTO %d' % (100 + 10 * idx), 'step %d' % idx)
        return self.run(statement_text(op, self.m), 'step %d' % idx)

    def judge_statement(self, idx, op, o, acc, ok_effect, text):
        """Common verdict for statements with model-evaluated expressions."""
        res = self.res
        if o.errors:
            code = o.errors[0][0]
            self.pending_after_error = True
            if code in (14, 7):
                # the failed statement left the model and the pointers unchanged
                free, _, _ = self.model_free()
                res.label('err:%d' % code)
                if free > acc.alloc + self.extra_need:
                    self.fail('oom.spurious', 'step %d %r: error %d with post-collection free %d '
                              '> upper bound of bytes needed %d' % (
                                  idx, text, code, free, acc.alloc + self.extra_need))
                res.label('oom-accepted')
                return
            if acc.errs:
                res.label('err:%d' % code)
                if code not in acc.errs:
                    self.fail('stmt.wrong-error', 'step %d %r: error %d, model expects %r' % (
                        idx, text, code, sorted(acc.errs)))
                return
            self.fail('stmt.spurious-error', 'step %d %r: error %d, model expects success' % (
                idx, text, code))
        if acc.errs:
            self.fail('stmt.error-missing', 'step %d %r: succeeded, model expects error %r' % (
                idx, text, sorted(acc.errs)))
        ok_effect()

    def step(self, idx, op):
        m = self.m
        o_ = op['o']
        res = self.res
        res.label('op:' + o_)
        self.extra_need = 0
        if o_ in ('let', 'midset', 'lset', 'rset', 'swap', 'eval'):
            text = statement_text(op, m)
            if len(text) > 235:
                res.label('skipped-too-long')
                return
            if self.prog and idx not in self.stored:
                res.label('skipped-too-long')
                return
            acc = Acc()
            if o_ == 'let':
                v = m_expr(op['e'], m, acc)
                if v is not None:
                    self.extra_need = len(v)
                o = self.exec_statement(idx, op)
                self.judge_statement(idx, op, o, acc, lambda: m.set(op['t'], v), text)
            elif o_ == 'eval':
                v = m_expr(op['e'], m, acc)
                o = self.exec_statement(idx, op)

                def eff():
                    n = self.sess.get('N%')
                    if n != len(v):
                        self.fail('value.len', 'step %d %r: N%%=%r, model %d' % (idx, text, n, len(v)))
                self.judge_statement(idx, op, o, acc, eff, text)
            elif o_ in ('lset', 'rset'):
                v = m_expr(op['e'], m, acc)
                cur = m.get(op['t'])
                if v is not None:
                    L = len(cur)
                    new = v[:L].ljust(L) if o_ == 'lset' else v[:L].rjust(L)
                    self.extra_need = L
                o = self.exec_statement(idx, op)
                self.judge_statement(idx, op, o, acc, lambda: m.set(op['t'], new), text)
            elif o_ == 'midset':
                cur = m.get(op['t'])
                p = m_arg(op['p'], 1, 255, m, acc)
                n = 255 if op.get('n') is None else m_arg(op['n'], 0, 255, m, acc)
                v = m_expr(op['e'], m, acc)
                new = None
                given0 = op.get('n') is not None and n == 0
                if p is not None and n is not None:
                    if p > len(cur) and not given0:
                        acc.errs.add(5)
                    elif v is not None:
                        cnt = max(0, min(n, len(v), len(cur) - p + 1))
                        selfsrc = (op['e'][0] == 'var'
                                   and m.resolve(op['e'][1]) == m.resolve(op['t']))
                        if selfsrc:
                            b = bytearray(cur)
                            for i in range(cnt):
                                b[p - 1 + i] = b[i]
                            new = bytes(b)
                            res.label('midset-self')
                        else:
                            new = cur[:p - 1] + v[:cnt] + cur[p - 1 + cnt:]
                        self.extra_need = len(cur)
                o = self.exec_statement(idx, op)
                self.judge_statement(idx, op, o, acc, lambda: m.set(op['t'], new), text)
            elif o_ == 'swap':
                o = self.exec_statement(idx, op)

                def eff():
                    a, b = m.get(op['t']), m.get(op['u'])
                    m.set(op['t'], b)
                    m.set(op['u'], a)
                self.judge_statement(idx, op, o, acc, eff, text)
        elif o_ == 'redim':
            which = op['a'] % 2
            if which == 0:
                newdim = 1 + op['d'][0] % 6
                need = 7 + 2 + 3 * (newdim + 1)
                o = self.run(b'ERASE P$', 'step %d' % idx)
                if o.errors:
                    self.fail('erase.error', 'ERASE P$ -> %r' % (o.errors,))
                m.p = []
                stmt = b'DIM P$(%d)' % newdim
            else:
                newdim = (op['d'][0] % 4, op['d'][1] % 4)
                need = 7 + 4 + 3 * (newdim[0] + 1) * (newdim[1] + 1)
                o = self.run(b'ERASE Q$', 'step %d' % idx)
                if o.errors:
                    self.fail('erase.error', 'ERASE Q$ -> %r' % (o.errors,))
                m.q = []
                stmt = b'DIM Q$(%d,%d)' % newdim
            self.check_values('ERASE in step %d' % idx)
            free, _, _ = self.model_free()
            o = self.run(stmt, 'step %d' % idx)
            if o.errors:
                code = o.errors[0][0]
                if code == 7 and free <= need + 8:
                    res.label('dim-oom-accepted')
                    raise Stop()
                self.fail('dim.error', '%r -> error %d with free %d, need %d' % (
                    stmt, code, free, need))
            if which == 0:
                m.pdim = newdim
                m.p = [b''] * (newdim + 1)
            else:
                m.qdim = newdim
                m.q = [[b''] * (newdim[1] + 1) for _ in range(newdim[0] + 1)]
        elif o_ == 'fre':
            self.check_fre(bool(op.get('s')), 'step %d' % idx)
        elif o_ == 'clear':
            self.clear_to(op.get('slack'), op.get('form', 'n'), op.get('stack'), op.get('size'))
            m.reset(m.pdim, m.qdim)
            self.setup_vars()
            self.check_clear_fre()
        elif o_ == 'fit':
            self.do_fit(idx, op)
        else:
            raise ValueError(o_)

    # -- exact-fit operations

    def alloc(self, name, n, c, idx, setter):
        """`name=STRING$(n,c)`: must succeed when the model has more than n bytes after a
        collection (the unchanged tree keeps one spare byte: fails when free <= n)."""
        free, _, _ = self.model_free()
        text = b'%s=STRING$(%d,%d)' % (name, n, c)
        o = self.run(text, 'step %d' % idx)
        if o.errors:
            code = o.errors[0][0]
            self.pending_after_error = True
            if code == 14 and free <= n:
                self.res.label('err:14', 'oom-accepted')
                return False
            self.fail('oom.spurious' if code in (14, 7) else 'stmt.spurious-error',
                      'step %d %r: error %d although %d bytes are free after a collection '
                      '(needs %d)' % (idx, text, code, free, n))
        setter(bytes([c]) * n)
        return True

    def do_fit(self, idx, op):
        m = self.m
        res = self.res
        L = max(1, min(255, op['len']))
        d = op['d']
        c = 33 + op['c'] % 90
        want = L + d
        tname = m.name(op['t']).encode()

        def set_fill(k):
            def f(v):
                m.fill[k] = v
            return f
        # empty the fillers first (no allocation)
        if any(m.fill):
            self.run(b'F0$="":F1$="":F2$="":F3$=""', 'step %d' % idx)
            m.fill = [b''] * 4
        if want < 1:
            res.label('fit-skipped')
            return
        if op['when'] == 'after':
            # post-collection free space == L + d, reached with live fillers
            if self.prog:
                res.label('fit-skipped')
                return
            free, _, _ = self.model_free()
            excess = free - want
            if excess < 0 or excess > 4 * 255:
                res.label('fit-skipped')
                return
            for k in range(4):
                n = min(255, excess)
                if n:
                    if not self.alloc(b'F%d$' % k, n, 70 + k, idx, set_fill(k)):
                        return
                    excess -= n
            fre = self.evaluate(b'FRE("")')
            if fre != want:
                self.fail('fre.mismatch', 'step %d: fillers placed for %d free bytes, FRE("") = %r'
                          % (idx, want, fre))
            res.label('exact-fit-after-gc', 'exact-fit-after-gc:free-size=%+d' % d)
            text = b'%s=STRING$(%d,%d)' % (tname, L, c)
            o = self.run(text, 'step %d' % idx)
            if o.errors:
                code = o.errors[0][0]
                self.pending_after_error = True
                res.label('err:%d' % code)
                if code != 14 or d >= 1:
                    self.fail('oom.spurious' if code in (14, 7) else 'stmt.spurious-error',
                              'step %d %r with exactly %d bytes free after a collection: error %d'
                              % (idx, text, want, code))
            else:
                if d < 0:
                    self.fail('oom.missing', 'step %d %r succeeded with only %d bytes free'
                              % (idx, text, want))
                m.set(op['t'], bytes([c]) * L)
            return
        # 'before': uncollected free space == L + d while plenty of garbage is reclaimable
        free, _, _ = self.model_free()
        if free < L + 40:
            res.label('fit-skipped')
            return
        f0 = self.evaluate(b'FRE(0)')
        if f0 < want + 1:
            self.evaluate(b'FRE("")')
            f0 = self.evaluate(b'FRE(0)')
        todo = int(f0) - want
        if todo < 1 or todo > 3000:
            res.label('fit-skipped')
            return
        while todo > 0:
            n = min(250, todo)
            if not self.alloc(b'F0$', n, 88, idx, set_fill(0)):
                return
            todo -= n
        self.run(b'F0$=""', 'step %d' % idx)
        m.fill[0] = b''
        f0 = self.evaluate(b'FRE(0)')
        if f0 != want:
            # steering relies on allocation details; no verdict without the exact situation
            res.label('fit-steer-missed')
            return
        res.label('exact-fit-before-gc', 'exact-fit-before-gc:free-size=%+d' % d)
        self.alloc(tname, L, c, idx, lambda v: m.set(op['t'], v))

    def go(self):
        case = self.case
        res = self.res
        with harness.Sess(sandbox=bc.shared_sandbox(), budget=50000) as sess:
            self.sess = sess
            self.install_gc_counter()
            # program text first: storing a line clears all variables
            self.stored = set()
            o = self.run(FN_LINE, 'setup')
            if self.prog:
                for idx, op in enumerate(case['ops']):
                    text = statement_text(op, self.m_for_names())
                    if text is not None and len(text) <= 235:
                        o = self.run(b'%d %s:END' % (100 + 10 * idx, text), 'store')
                        if o.errors:
                            self.fail('store.error', 'storing %r -> %r' % (text, o.errors))
                        self.stored.add(idx)
            res.label('mode:' + ('prog' if self.prog else 'direct'))
            res.label('slack:%s' % case.get('slack'))
            self.clear_to(case.get('slack'), case.get('form', 'n'), case.get('stack'))
            self.setup_vars()
            self.check_clear_fre()
            self.check_values('setup')
            last_gc = 0
            for idx, op in enumerate(case['ops']):
                if self.prog and not self.names_stable(op):
                    res.label('skipped-prog-redim')
                    continue
                self.in_op = True
                self.op_aliases = has_alias(op)
                self.cur_op = op['o']
                self.gc_in_op = False
                self.pending_after_error = False
                try:
                    self.step(idx, op)
                finally:
                    self.in_op = False
                self.check_values('step %d %s' % (idx, op['o']))
                if self.pending_after_error:
                    self.after_error = True
                if self.gc_count > last_gc:
                    res.label('step-with-gc')
                    last_gc = self.gc_count
            # closing collection: every history ends with a forced collection and a full read
            self.check_fre(True, 'end')
            self.check_values('final FRE("")')

    def m_for_names(self):
        """In prog mode the statement text is fixed when the program is stored, so array
        dimensions must not change (names are resolved against the initial dimensions)."""
        return self.m

    def names_stable(self, op):
        return op['o'] != 'redim'


def has_alias(op):
    """The statement's expressions reference a variable or FNS$ (aliased pointers during GC)."""
    def walk(x):
        if isinstance(x, list):
            if x and x[0] in ('var', 'fn'):
                return True
            return any(walk(y) for y in x)
        return False
    return any(walk(op.get(k)) for k in ('e', 'p', 'n')) or op['o'] in ('midset', 'lset', 'rset',
                                                                         'swap')


def check_case(case):
    res = Result()
    r = Runner(case, res)
    try:
        r.go()
    except Stop:
        pass
    res.label('gcs:%s' % ('0' if r.gc_count == 0 else '1-2' if r.gc_count <= 2 else
                          '3-9' if r.gc_count <= 9 else '10+'))
    res.nt(r.gc_with_live > 0)
    if r.aliased_gc:
        res.label('aliased-gc')
    if r.after_error:
        res.label('had-failed-statement')
    return res


# --------------------------------------------------------------------------------------------
# generators

LIT_LENGTHS = [0, 1, 2, 3, 5, 8, 13, 21, 34, 40]
SMALL_N = [0, 0, 1, 1, 2, 3, 5, 8, 10, 20, 50, 100, 200, 255]
BAD_N = [-1, 256, 300]


def gen_lit(ch):
    n = ch.choice(LIT_LENGTHS)
    salt = ch.int(0, 87)
    # printable ASCII without the double quote; content varies so that aliasing shows
    return ''.join(chr(35 + (salt + 3 * i) % 88) for i in range(n))


def gen_target(ch):
    k = ch.int(0, 9)
    if k < 5:
        return ['s', ch.int(0, 3)]
    if k < 8:
        return ['p', ch.int(0, 5)]
    return ['q', ch.int(0, 3), ch.int(0, 3)]


def gen_num(ch, depth, allow_bad=True):
    k = ch.int(0, 19)
    if k < 11:
        return ch.choice(SMALL_N)
    if k < 15:
        return ['lenof', ['var', gen_target(ch)], ch.choice([-1, 0, 0, 1, 1, 2])]
    if k < 17 and depth > 0:
        start = None if ch.int(0, 1) else ch.choice([1, 1, 2, 3, 9])
        return ['instr', start, gen_expr(ch, depth - 1), gen_expr(ch, 0)]
    if k < 18 and allow_bad and ch.int(0, 1):
        return ch.choice(BAD_N)
    return ch.int(0, 40)


def gen_expr(ch, depth):
    if depth <= 0:
        k = ch.int(0, 9)
        if k < 4:
            return ['lit', gen_lit(ch)]
        if k < 9:
            return ['var', gen_target(ch)]
        return ['chr', ch.int(32, 255)]
    k = ch.int(0, 19)
    if k < 3:
        return gen_expr(ch, 0)
    if k < 9:
        return ['cat', gen_expr(ch, depth - 1), gen_expr(ch, depth - 1)]
    if k < 11:
        return ['left', gen_expr(ch, depth - 1), gen_num(ch, depth - 1)]
    if k < 13:
        return ['right', gen_expr(ch, depth - 1), gen_num(ch, depth - 1)]
    if k < 15:
        return ['mid', gen_expr(ch, depth - 1), gen_num(ch, depth - 1),
                None if ch.int(0, 1) else gen_num(ch, depth - 1)]
    if k < 17:
        return ['string', ch.choice([0, 1, 5, 30, 100, 200, 255, 256]) if ch.int(0, 3) == 0
                else ch.int(0, 120), ch.int(33, 255)]
    if k < 18:
        return ['space', ch.int(0, 100)]
    if k < 19:
        return ['fn', gen_expr(ch, depth - 1)]
    return ['strings', ch.int(0, 60), ['cat', ['lit', gen_lit(ch) or 'z'], gen_expr(ch, 0)]]


OPS = [(40, 'let'), (8, 'midset'), (5, 'lset'), (5, 'rset'), (8, 'swap'), (4, 'redim'),
       (6, 'fres'), (3, 'fre0'), (3, 'clear'), (9, 'eval'), (7, 'fit')]
CLEAR_FORMS = ['n', 'n', 'ns', 's', 'en', 'plain']
STACKS = [256, 512, 600, 1024]
SLACKS = [120, 200, 300, 300, 500, 800, 800, 1500, 4000, None]


def gen_op(ch):
    o = ch.weighted(OPS)
    if o == 'let':
        return {'o': 'let', 't': gen_target(ch), 'e': gen_expr(ch, ch.int(0, 3))}
    if o == 'midset':
        t = gen_target(ch)
        e = ['var', t] if ch.int(0, 4) == 0 else gen_expr(ch, ch.int(0, 2))
        p = ch.choice([1, 1, 2, 3, 5, ['lenof', ['var', t], 0], ['lenof', ['var', t], 1], 40])
        return {'o': 'midset', 't': t, 'p': p,
                'n': None if ch.int(0, 1) else ch.choice([0, 1, 2, 5, 100, 255]), 'e': e}
    if o in ('lset', 'rset'):
        return {'o': o, 't': gen_target(ch), 'e': gen_expr(ch, ch.int(0, 2))}
    if o == 'swap':
        t = gen_target(ch)
        u = gen_target(ch)
        return {'o': 'swap', 't': t, 'u': u}
    if o == 'redim':
        return {'o': 'redim', 'a': ch.int(0, 1), 'd': [ch.int(0, 5), ch.int(0, 3)]}
    if o == 'fres':
        return {'o': 'fre', 's': True}
    if o == 'fre0':
        return {'o': 'fre', 's': False}
    if o == 'clear':
        return {'o': 'clear', 'slack': ch.choice(SLACKS), 'form': ch.choice(CLEAR_FORMS),
                'stack': ch.choice(STACKS)}
    if o == 'fit':
        when = ch.choice(['before', 'before', 'after'])
        return {'o': 'fit', 'when': when, 't': gen_target(ch),
                'len': ch.choice([1, 2, 10, 50, 100, 200, 254, 255, ch.int(1, 255)]),
                'd': ch.choice([-1, 0, 0, 1]) if when == 'before' else ch.choice([-1, 0, 1, 1, 2]),
                'c': ch.int(0, 89)}
    return {'o': 'eval', 'e': gen_expr(ch, ch.int(1, 3))}


def gen_case(ch, maxsteps):
    mode = 'prog' if ch.int(0, 3) == 0 else 'direct'
    slack = ch.choice(SLACKS)
    n = ch.int(5, maxsteps)
    return {'mode': mode, 'slack': slack, 'form': ch.choice(['n', 'n', 'ns', 'en']),
            'stack': ch.choice(STACKS), 'ops': [gen_op(ch) for _ in range(n)]}


def max_steps():
    import os
    return 60 if os.environ.get('VERIF_TIER', 'quick') == 'quick' else 300


@st.composite
def strat_case(draw):
    return gen_case(bc.HypChooser(draw), max_steps())


def gen_bulk(shard, nshards, tier, seed):
    ch = bc.RandomChooser(random.Random(seed))
    n = 220 if tier == 'quick' else 2500
    steps = 60 if tier == 'quick' else 300
    for _ in range(n):
        yield gen_case(ch, steps)


def units(tier):
    return [
        Unit('histories-bulk', 'enum', shards=16, gen=gen_bulk, per_case_timeout=60.0),
        Unit('histories', 'hyp', shards=16, examples={'quick': 40, 'thorough': 300},
             strategy=strat_case, per_case_timeout=60.0),
    ]


def _leak_case(first):
    return {'mode': 'direct', 'slack': 500, 'ops': [
        {'o': 'let', 't': ['s', 0], 'e': ['lit', 'keep me']},
        first,
        {'o': 'let', 't': ['s', 1], 'e': ['string', 200, 65]},
        {'o': 'let', 't': ['s', 1], 'e': ['string', 200, 66]},
        {'o': 'let', 't': ['s', 1], 'e': ['string', 200, 67]},
        {'o': 'let', 't': ['s', 1], 'e': ['string', 200, 68]},
    ]}


REGRESSIONS = [
    # fixed 8e64e579: CLEAR ,n (no stack size) silently left the memory size alone
    {'mode': 'direct', 'slack': None, 'form': 'plain', 'ops': [
        {'o': 'clear', 'size': 20000, 'form': 'n'},
        {'o': 'let', 't': ['s', 0], 'e': ['string', 100, 65]},
        {'o': 'fre', 's': True}]},
    {'mode': 'direct', 'slack': None, 'form': 'plain', 'ops': [
        {'o': 'clear', 'size': 30000, 'form': 'en', 'slack': 3},
        {'o': 'clear', 'size': 20000, 'form': 'ns', 'stack': 1024},
        {'o': 'clear', 'form': 's', 'stack': 256},
        {'o': 'clear', 'form': 'plain'},
        {'o': 'fre', 's': True}]},
    # exact fit before a collection (wave-5 seed: no collection when FRE(0) == size)
    {'mode': 'direct', 'slack': 1500, 'form': 'n', 'ops': [
        {'o': 'let', 't': ['s', 2], 'e': ['string', 20, 99]},
        {'o': 'fit', 'when': 'before', 't': ['s', 1], 'len': 236, 'd': 0, 'c': 55},
        {'o': 'fit', 'when': 'before', 't': ['p', 1], 'len': 50, 'd': -1, 'c': 56},
        {'o': 'fit', 'when': 'before', 't': ['q', 1, 1], 'len': 1, 'd': 0, 'c': 57},
        {'o': 'fre', 's': True}]},
    {'mode': 'direct', 'slack': 500, 'form': 'n', 'ops': [
        {'o': 'fit', 'when': 'after', 't': ['s', 3], 'len': 100, 'd': 1, 'c': 58},
        {'o': 'fit', 'when': 'after', 't': ['s', 0], 'len': 100, 'd': 0, 'c': 59},
        {'o': 'fit', 'when': 'after', 't': ['p', 0], 'len': 255, 'd': -1, 'c': 60},
        {'o': 'fre', 's': True}]},
    # fixed 23d8c7a7: early returns of RIGHT$/LEFT$/MID$/INSTR left their argument in
    # memory.temp_values; the next collection raised KeyError 'Dereferencing detached string'
    _leak_case({'o': 'eval', 'e': ['right', ['lit', 'abc'], 0]}),
    _leak_case({'o': 'eval', 'e': ['left', ['cat', ['lit', 'abc'], ['lit', 'd']], 0]}),
    _leak_case({'o': 'eval', 'e': ['mid', ['lit', 'abc'], 4, None]}),
    _leak_case({'o': 'eval', 'e': ['mid', ['lit', 'abc'], 3, 0]}),
    _leak_case({'o': 'eval', 'e': ['left', ['lit', 'abc'], ['instr', 4, ['lit', 'abc'],
                                                           ['lit', '']]]}),
    _leak_case({'o': 'eval', 'e': ['left', ['lit', 'abc'], 300]}),
    # fixed 8b0d6f2c: memory.get_stack was not exception-safe; A$="qq"+CHR$(300) left its operand
    # stack registered and the next collection raised KeyError (or leaked the temporary)
    {'mode': 'direct', 'slack': None, 'ops': [
        {'o': 'let', 't': ['s', 0], 'e': ['cat', ['lit', 'qq'], ['chr', 300]]}]},
    {'mode': 'direct', 'slack': 300, 'ops': [
        {'o': 'eval', 'e': ['cat', ['cat', ['chr', 37], ['chr', 74]], ['right', ['lit', '&)'], 256]]},
        {'o': 'fre', 's': True}]},
    {'mode': 'prog', 'slack': 300, 'ops': [
        {'o': 'let', 't': ['s', 2], 'e': ['cat', ['left', ['right', ['lit', 'knq'], 8], 10],
                                          ['cat', ['right', ['lit', 'ps'], 256],
                                           ['mid', ['lit', 'F'], 21, ['lenof', ['var', ['s', 0]], 2]]]]}]},
    # fixed 43ccddd6: a collection inside an expression with no permanent string set _temp=None
    # and let_ escaped with TypeError in is_permanent
    {'mode': 'prog', 'slack': 200, 'ops': [
        {'o': 'let', 't': ['q', 1, 0], 'e': ['cat', ['string', 115, 229], ['strings', 59, [
            'cat', ['lit', ":=@CFILORUX[^adgjmpsvy$'*-0369<?BEHKNQTW"], ['lit', 'X']]]]}]},
    {'mode': 'direct', 'slack': 300, 'ops': [
        {'o': 'let', 't': ['s', 0], 'e': ['string', 100, 65]},
        {'o': 'let', 't': ['s', 0], 'e': ['lit', '']},
        {'o': 'let', 't': ['s', 0], 'e': ['cat', ['string', 100, 65], ['string', 100, 66]]},
        {'o': 'let', 't': ['s', 1], 'e': ['var', ['s', 0]]},
        {'o': 'lset', 't': ['s', 1], 'e': ['lit', 'zz']}]},
    # fixed d124a4a2: collect_garbage stored a string once per pointer (FN parameter, operand
    # stack views); string space overflowed and B$ read back as program code
    {'mode': 'direct', 'slack': 120, 'ops': [
        {'o': 'let', 't': ['s', 1], 'e': ['string', 100, 217]},
        {'o': 'let', 't': ['s', 2], 'e': ['fn', ['var', ['s', 1]]]}]},
    {'mode': 'direct', 'slack': 120, 'ops': [
        {'o': 'let', 't': ['s', 1], 'e': ['string', 100, 217]},
        {'o': 'rset', 't': ['s', 1], 'e': ['cat', ['fn', ['var', ['s', 1]]],
                                         ['strings', 25, ['cat', ['lit', '47'], ['chr', 245]]]]}]},
    {'mode': 'direct', 'slack': 120, 'ops': [
        {'o': 'let', 't': ['s', 2], 'e': ['string', 30, 184]},
        {'o': 'let', 't': ['q', 3, 0], 'e': ['string', 93, 123]},
        {'o': 'swap', 't': ['s', 0], 'u': ['s', 2]},
        {'o': 'eval', 'e': ['cat', ['fn', ['var', ['s', 0]]], ['right', ['var', ['q', 0, 3]], 1]]},
        {'o': 'fre', 's': False}]},
    # fixed 1c276ed0: MID$= on a code-resident target with a temporary source; the collection
    # triggered by copying the target to string space dropped the source (KeyError in midset)
    {'mode': 'prog', 'slack': 1500, 'ops': [
        {'o': 'clear', 'slack': 120},
        {'o': 'let', 't': ['s', 3], 'e': ['left', ['cat', ['cat', ['var', ['q', 3, 2]], [
            'lit', "147:=@CFILORUX[^adgjmpsvy$'*-0369<"]], ['right', ['var', ['q', 3, 3]], 0]], 35]},
        {'o': 'let', 't': ['p', 0], 'e': ['lit', ":=@CFILORUX[^adgjmpsvy$'*-0369<?BEHKNQTW"]},
        {'o': 'midset', 't': ['p', 5], 'p': 1, 'n': 100, 'e': ['space', 56]}]},
]

KILLS = [
    'strings.py collect_garbage: sort ascending  => fre.unstable*, escaped.KeyError@strings.py:_retrieve*',
    'scalars.py set: skip fix_temporaries  => escaped.KeyError@strings.py:_retrieve*, value.scalar*',
    'memory.py _collect_garbage: drop stack_strings from string_ptrs  => escaped.KeyError@strings.py:_retrieve*',
    'arrays.py get_strings: forget string arrays  => fre.mismatch*, escaped.KeyError@strings.py:_retrieve*',
    'arrays.py set: skip fix_temporaries  => escaped.KeyError@strings.py:_retrieve*, value.array1/2*',
    'strings.py is_permanent: return False (no deep copy in LET)  => value.scalar/array*, fre.mismatch*',
    'strings.py check_modify: never copy code literals  => value.scalar/array* (prog mode)',
    'userfunctions.py evaluate: do not restore the parameter variable  => fre.mismatch*, fre.below-model*',
    'revert 23d8c7a7 (string function early returns leak temp_values)  => REGRESSIONS 1-6: escaped.KeyError@strings.py:_retrieve',
    'revert 8b0d6f2c (get_stack not exception safe)  => escaped.KeyError@strings.py:_retrieve.after-error, fre.mismatch.after-error',
    'revert 43ccddd6 (_temp None -> TypeError)  => escaped.TypeError@strings.py:is_permanent',
    'revert d124a4a2 (collector copies aliased strings)  => value.scalar.aliased-gc, fre.negative.aliased-gc, oom.spurious.aliased-gc',
    "wave-5 seed: check_free collects only when free < size and then refuses when free <= size (no collection at FRE(0) == size)  => oom.spurious* (fit ops 'exact-fit-before-gc', shrunk to A$=STRING$(1,33)), dim.error",
    "memory.py check_free: refuse when free <= size + 1 (two spare bytes)  => oom.spurious (exact-fit-after-gc, free = size+1)",
    "revert 8e64e579 (CLEAR ,n without stack size ignores n)  => clear.size-not-set (every history; REGRESSIONS 1-2)",
    "SURVIVES (accepted by the documented assumption): memory.py check_free '<=' -> '<' in both tests (allocation allowed when exactly `size` bytes are free after a collection): the statement allows it; the unchanged tree keeps one spare byte, so both outcomes are accepted at free == size",
    "SURVIVES: strings.py _delete_last without 'self.current += length' (space reclaimed only at the next collection): FRE(0) without collection is not constrained from below",
]
