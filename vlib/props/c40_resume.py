"""
C40 - a suspended session resumes exactly where it stopped; altered state files are rejected.

Differential oracle: the same stored program is run twice from identical fresh sessions, driven the
way a user would (type RUN, and SYSTEM typed ahead): once uninterrupted, once with a real
`signals.QUIT` put on the input queue at the k-th statement boundary (so `error.Exit` leaves through
the genuine code path), followed by what `pcbasic.main` does: `Session.suspend(file)`, close the old
session, `Session.resume(file)`, attach, `interact()`. Output stream, variables, files on the mount,
text screen and pixels of the two runs must be equal, for every boundary k of the program.

Case shapes:
  {'u': 'resume', 'lines': [program lines], 'ks': None | [boundary ordinals], 'files': {name: latin1}}
  {'u': 'tamper', 'pos': int, 'alt': 'xor1'|'xor80'|'zero'|'ff'|'trunc'|'set', 'val': int|None,
   'prog': 0|1}
"""
import os
import sys
import shutil
import logging

from hypothesis import strategies as st

from vlib.core import Result, Unit
from vlib import harness
from vlib.harness import Sess, Sandbox, signals

from pcbasic.basic import Session        # noqa: E402

ID = 'C40'
LEVEL = 'exploration'
RULE = ("Generated terminating programs (FOR/WHILE loops across and inside lines, GOSUB/RETURN, "
        "ON..GOTO/GOSUB, IF..THEN line jumps, ON ERROR handlers with RESUME/RESUME NEXT/RESUME line, "
        "sequential files open for output/append/input, a random-access file with FIELD buffers, "
        "strings and arrays, READ/DATA, DEF FN, RND state, text and CGA graphics screens); every "
        "check_events call made by the interpreter's statement loop while a program runs is one "
        "interruption point, all points of each program are taken (capped at 60, evenly thinned "
        "beyond). A program is non-trivial if at least one of its interruption points lies inside "
        "a loop, a subroutine or an error handler, or has a file open; distinct = distinct program "
        "text; plus 'conversations' built by construction - consecutive buffer operations on one "
        "open file (PRINT#/WRITE#/INPUT#/LINE INPUT# on a RANDOM record buffer with PUT/GET, "
        "sequential output mid-line with WIDTH, INPUT# mid-line, implicit GET/PUT record pointer, "
        "SCRN:/LPT1: device columns) with every boundary between two operations taken (labels "
        "interrupt-between-ops:<kind>), in the random programs and in a directed unit. Tampering: every byte position of a real state file (quick tier: header, first and "
        "last 2 kB and every 4th byte between; thorough tier: every byte of two files) "
        "x {one of xor 1/xor 0x80/set 0/set 0xFF (all four in the thorough tier)}, truncation at "
        "every 8th byte and throughout the first/last 64 bytes (every byte in the thorough tier), "
        "and all 255 other values for each of the 24 header bytes.")
ASSUMPTIONS = [
    "interruption points are statement boundaries (where a QUIT signal is noticed), not points "
    "inside a blocking statement; programs do not read the keyboard, clock, or play sound",
    "the old session is closed after suspend() and before resume(), as pcbasic.main does; files are "
    "compared after both runs have exited",
    "variables compared are the generator's fixed name pool, read through Session.get_variable",
    "a tampered file counts as rejected if Session.resume raises anything; appending bytes is not "
    "an alteration of a byte and is not asserted",
]
TECHNIQUE = ("differential testing: interrupted+resumed vs. uninterrupted run at every statement "
             "boundary of Hypothesis-generated programs; exhaustive single-byte tampering of real "
             "state files")

BUDGET = 6000
MAX_K = 60
REPLAY_STATEMENTS = 8000
VARS = ['A', 'B', 'C', 'Z', 'E', 'EC', 'EL', 'I', 'J', 'W', 'N%', 'D#', 'S$', 'T$', 'U$',
        'R()', 'Q$()', 'G%()']
KEYS = u'RUN\rSYSTEM\r'
INFILE = b'alpha,12\r\n"beta, gamma",7\r\n3.5\r\nlast line\r\n'


# --------------------------------------------------------------------------------------------
# running

class Scratch(object):
    """
    One scratch tree per worker process, emptied between runs instead of being re-created (every
    interruption point needs a clean mount; directory creation dominated the system time).
    Same interface as harness.Sandbox.
    """

    _inst = {}

    def __init__(self):
        self._sb = Sandbox()
        self.root, self.z = self._sb.root, self._sb.z

    @classmethod
    def get(cls):
        sd = cls._inst.get(os.getpid())
        if sd is None or not os.path.isdir(sd.z):
            sd = cls._inst[os.getpid()] = cls()
        sd.close()
        return sd

    def path(self, *parts):
        return os.path.join(self.root, *parts)

    def close(self):
        for base in (self.root, self.z):
            for name in os.listdir(base):
                p = os.path.join(base, name)
                if p == self.z:
                    continue
                if os.path.isdir(p) and not os.path.islink(p):
                    shutil.rmtree(p, ignore_errors=True)
                else:
                    os.unlink(p)


def adopt(session, sandbox, budget=BUDGET):
    """Wrap an existing (resumed) Session in a harness Sess."""
    a = object.__new__(Sess)
    a._own_sandbox = False
    a.sandbox = sandbox
    a.kwargs = {}
    a.s = session
    a.impl = session._impl
    a.budget = budget
    a.calls = 0
    a.inject = None
    a._install_budget()
    return a


def prepare(sandbox, case):
    files = case.get('files') or {'IN.TXT': INFILE.decode('latin-1')}
    for name, data in sorted(files.items()):
        with open(os.path.join(sandbox.z, name), 'wb') as f:
            f.write(data.encode('latin-1'))
    s = Sess(sandbox=sandbox, budget=BUDGET)
    o = s.execute('\n'.join(case['lines']).encode('latin-1'))
    return s, o


def observe(s, sandbox):
    """Everything the property compares, read after the session has exited."""
    obs = {}
    vals = {}
    for name in VARS:
        try:
            vals[name] = s.get(name)
        except Exception as e:        # noqa: B902 -- compared as an observation
            if type(e).__name__ == 'CaseTimeout':
                raise
            vals[name] = 'exception %s' % type(e).__name__
    obs['vars'] = vals
    obs['chars'] = [b''.join(row) for row in s.s.get_chars()]
    try:
        obs['pixels'] = s.s.get_pixels()
    except Exception as e:            # noqa: B902
        if type(e).__name__ == 'CaseTimeout':
            raise
        obs['pixels'] = 'exception %s' % type(e).__name__
    return obs


def read_files(sandbox):
    out = {}
    for root, _dirs, names in os.walk(sandbox.z):
        for n in names:
            p = os.path.join(root, n)
            with open(p, 'rb') as f:
                out[os.path.relpath(p, sandbox.z)] = f.read()
    return out


def is_boundary(s):
    """Called from inside the check_events wrapper: is this the interpreter's statement loop?"""
    f = sys._getframe(3)
    return f.f_code.co_name == 'parse' and bool(s.impl.interpreter.run_mode)


CONV_KINDS = ['rnd-stream', 'seq-midline', 'input-midline', 'getput-pointer', 'device-column']


def boundary_state(s):
    it = s.impl.interpreter
    labs = []
    try:
        # conversations on one open file set K% after their first operation and clear it before
        # the last: a boundary seen with K% set lies between two operations on the same file
        k = int(s.get('K%'))
        if 1 <= k <= len(CONV_KINDS):
            labs.append('interrupt-between-ops:' + CONV_KINDS[k - 1])
    except Exception as e:              # noqa: B902
        if type(e).__name__ == 'CaseTimeout':
            raise
    if it.for_stack:
        labs.append('k:in-for')
    if it.while_stack:
        labs.append('k:in-while')
    if it.gosub_stack:
        labs.append('k:in-gosub')
    if it.error_handle_mode:
        labs.append('k:in-error-handler')
    if it.on_error:
        labs.append('k:error-trap-armed')
    if s.impl.files.files:
        labs.append('k:file-open')
        modes = sorted({getattr(f, 'mode', b'?').decode('latin-1') for f in
                        s.impl.files.files.values()})
        labs.extend('k:file-open-%s' % m for m in modes)
    if s.impl.display.mode.is_text_mode is False:
        labs.append('k:graphics-mode')
    # mid-line boundary or first statement of a line
    try:
        ins = it.get_codestream()
        pos = ins.tell()
        ins.seek(pos)
        c = ins.read(1)
        ins.seek(pos)
        labs.append('k:at-line-start' if c == b'\0' else 'k:mid-line')
    except Exception:                 # noqa: B902
        pass
    return labs


def run_reference(case):
    sb = Scratch.get()
    try:
        s, o0 = prepare(sb, case)
        calls = []

        def inj(k):
            if is_boundary(s):
                calls.append(k)
        s.inject = inj
        o = s.interact(keys=KEYS)
        s.inject = None
        obs = observe(s, sb) if o.kind == 'exit' else None
        closed = s.close()
        files = read_files(sb)
        return o0, o, calls, obs, files, closed
    finally:
        sb.close()


def run_interrupted(case, k):
    """-> (stage, detail) on trouble or ('done', (output, obs, files, labels))."""
    sb = Scratch.get()
    s = a = None
    try:
        s, _ = prepare(sb, case)
        labels = []

        def inj(c):
            if c == k:
                labels.extend(boundary_state(s))
                s.put_signal(signals.QUIT)
        s.inject = inj
        o1 = s.interact(keys=KEYS)
        s.inject = None
        if o1.kind != 'exit' or s.calls != k:
            return 'leg1', 'interrupt at call %d: %r (calls=%d)' % (k, o1, s.calls)
        s.remove_budget()
        state = sb.path('state.sav')
        try:
            s.s.suspend(state)
        except BaseException as e:      # noqa: B902
            if isinstance(e, (KeyboardInterrupt, SystemExit, MemoryError)) or \
                    type(e).__name__ == 'CaseTimeout':
                raise
            return 'suspend', '%s@%s: %s' % (type(e).__name__,
                                             harness.innermost_frame(e.__traceback__), e)
        s.close()
        s = None
        try:
            s2 = Session.resume(state)
            s2.attach(None)
        except BaseException as e:      # noqa: B902
            if isinstance(e, (KeyboardInterrupt, SystemExit, MemoryError)) or \
                    type(e).__name__ == 'CaseTimeout':
                raise
            return 'resume', '%s@%s: %s' % (type(e).__name__,
                                            harness.innermost_frame(e.__traceback__), e)
        a = adopt(s2, sb)
        o2 = a.interact()
        if o2.kind == 'budget':
            return 'budget', repr(o2)
        if o2.kind != 'exit':
            return 'leg2', '%s %s' % (o2.key(), o2.tb or o2)
        obs = observe(a, sb)
        a.close()
        a = None
        files = read_files(sb)
        return 'done', (o1.output + o2.output, obs, files, labels)
    finally:
        for x in (s, a):
            if x is not None:
                try:
                    x.close()
                except Exception:       # noqa: B902
                    pass
        sb.close()


def first_diff(a, b):
    n = min(len(a), len(b))
    for i in range(n):
        if a[i] != b[i]:
            return i
    return n


def stray_eof(files, ref_files):
    """Does some file hold more 0x1A bytes after the resumed run than after the uninterrupted one?"""
    return any(data.count(b'\x1a') > ref_files.get(n, b'').count(b'\x1a')
               for n, data in files.items())


def compare(ref_out, ref_obs, ref_files, out, obs, files, labels=()):
    """-> list of (key, msg)"""
    diffs = []
    if out != ref_out:
        i = first_diff(out, ref_out)
        diffs.append(('diff.output', 'output differs at byte %d: resumed ...%r, uninterrupted ...%r'
                      % (i, out[max(0, i - 20):i + 40], ref_out[max(0, i - 20):i + 40])))
    for name in VARS:
        if obs['vars'][name] != ref_obs['vars'][name]:
            diffs.append(('diff.vars', '%s = %r after resume, %r uninterrupted' % (
                name, obs['vars'][name], ref_obs['vars'][name])))
            break
    if files != ref_files:
        names = sorted(n for n in set(files) | set(ref_files) if files.get(n) != ref_files.get(n))
        n = names[0]
        diffs.append(('diff.files', 'file %s: resumed %r, uninterrupted %r' % (
            n, files.get(n), ref_files.get(n))))
    if obs['chars'] != ref_obs['chars']:
        rows = [i for i in range(len(ref_obs['chars'])) if obs['chars'][i:i + 1] !=
                ref_obs['chars'][i:i + 1]]
        r = rows[0] if rows else 0
        diffs.append(('diff.screen', 'text row %d: resumed %r, uninterrupted %r' % (
            r + 1, obs['chars'][r:r + 1], ref_obs['chars'][r:r + 1])))
    if obs['pixels'] != ref_obs['pixels']:
        diffs.append(('diff.pixels', 'pixel contents differ'))
    if diffs and 'k:file-open-A' in labels and stray_eof(files, ref_files):
        # finding: a file open FOR APPEND at suspend time keeps the EOF byte written by the closing
        # session (state.unpickle_file restores only 'w' mode files to their position); LOF and
        # what is read back change with it. Region = APPEND file open at the boundary and an extra
        # 0x1A in the files; everything seen at such a boundary goes to its own keys.
        diffs = [('append-open.' + k, m) for k, m in diffs]
    return diffs


def pick_ks(calls, ks):
    if ks is not None:
        return [calls[i] for i in ks if 0 <= i < len(calls)], False
    # every boundary re-runs the program: bound the replayed statements per case
    maxk = min(MAX_K, max(12, REPLAY_STATEMENTS // len(calls)))
    if len(calls) <= maxk:
        return list(calls), False
    step = len(calls) / float(maxk)
    idx = sorted({int(i * step) for i in range(maxk)} | {0, 1, len(calls) - 1})
    return [calls[i] for i in idx], True


def check_resume(case, res):
    o0, ref, calls, ref_obs, ref_files, closed = run_reference(case)
    if 'CaseTimeout' in (o0.exc, ref.exc):
        res.inconclusive = True
        res.label('case-wall-limit')
        return res
    if o0.kind == 'escaped' or ref.kind == 'escaped':
        bad = o0 if o0.kind == 'escaped' else ref
        # an escaped exception without any interruption is C01's subject; reported, not compared
        res.fail('uninterrupted.escaped.%s@%s' % (bad.exc, bad.frame), bad.tb)
        return res
    if ref.kind != 'exit':
        res.inconclusive = True
        res.label('reference-run:' + ref.kind)
        return res
    if not calls:
        res.label('no-boundaries')
        return res
    ks, thinned = pick_ks(calls, case.get('ks'))
    if thinned:
        res.label('boundaries-thinned')
    nfail = 0
    seen = set()
    for k in ks:
        stage, detail = run_interrupted(case, k)
        if 'CaseTimeout' in str(detail)[:300] and stage != 'done':
            # the runner's per-case wall alarm went off inside a catch-all: not a verdict
            res.inconclusive = True
            res.label('case-wall-limit')
            return res
        res.label('resumes')
        ordinal = calls.index(k)
        if stage == 'budget':
            res.label('resume-leg-budget')
            res.inconclusive = True
            continue
        if stage != 'done':
            key = '%s.failed' % stage if stage.startswith('leg') else '%s.escaped.%s' % (
                stage, detail.split(':')[0])
            if stage == 'leg2':
                key = 'resumed-run.%s' % detail.split(' ')[0]
            res.fail(key, 'boundary #%d (call %d): %s' % (ordinal, k, detail))
            nfail += 1
        else:
            out, obs, files, labels = detail
            for lab in labels:
                res.label(lab)
                seen.add(lab)
            for key, msg in compare(ref.output, ref_obs, ref_files, out, obs, files, labels):
                if key.startswith('append-open.'):
                    res.excluded += 1       # known region: does not count towards the early stop
                    if res.keys().count(key) >= 2:
                        continue
                res.fail(key, 'boundary #%d (call %d, %s): %s' % (
                    ordinal, k, ','.join(labels), msg))
                if not key.startswith('append-open.'):
                    nfail += 1
        if nfail >= 4:
            break
    res.nt(bool(seen & {'k:in-for', 'k:in-while', 'k:in-gosub', 'k:in-error-handler',
                        'k:file-open'}) or any(x.startswith('interrupt-between-ops') for x in seen))
    res.label('boundaries:%s' % ('1-10' if len(calls) <= 10 else '11-30' if len(calls) <= 30
                                 else '31-60' if len(calls) <= 60 else '>60'))
    if ref.errors:
        res.label('program-ends-in-error')
    return res


# --------------------------------------------------------------------------------------------
# tampering

TAMPER_PROGS = [
    ['10 A=1:S$="abc"', '20 FOR I=1 TO 5', '30 PRINT I;S$', '40 NEXT', '50 PRINT "end"'],
    ['10 OPEN "O",1,"T.TXT":DIM R(20)', '20 FOR I=1 TO 9:R(I)=I*I:PRINT#1,I:GOSUB 100:NEXT',
     '30 CLOSE:END', '100 S$=S$+CHR$(64+I):RETURN'],
]
_STATE = {}


def state_bytes(prog):
    """A real state file: TAMPER_PROGS[prog] interrupted at its 7th statement boundary."""
    if prog not in _STATE:
        sb = Sandbox()
        try:
            case = {'lines': TAMPER_PROGS[prog]}
            s, _ = prepare(sb, case)
            seen = []

            def inj(c):
                if is_boundary(s):
                    seen.append(c)
                    if len(seen) == 7:
                        s.put_signal(signals.QUIT)
            s.inject = inj
            o = s.interact(keys=KEYS)
            assert o.kind == 'exit' and len(seen) == 7, o
            s.inject = None
            s.remove_budget()
            s.s.suspend(sb.path('st'))
            s.close()
            with open(sb.path('st'), 'rb') as f:
                _STATE[prog] = f.read()
        finally:
            sb.close()
    return _STATE[prog]


def alter(data, pos, alt, val=None):
    if alt == 'trunc':
        return data[:pos]
    b = data[pos]
    if alt == 'xor1':
        nb = b ^ 1
    elif alt == 'xor80':
        nb = b ^ 0x80
    elif alt == 'zero':
        nb = 0
    elif alt == 'ff':
        nb = 0xff
    else:
        nb = val
    if nb == b:
        return None
    return data[:pos] + bytes([nb]) + data[pos + 1:]


_TAMPER_DIR = {}


def try_resume(data):
    """-> None if rejected, else a description of what was accepted."""
    sb = _TAMPER_DIR.get(os.getpid())       # never share a scratch file with a forked sibling
    if sb is None:
        sb = _TAMPER_DIR[os.getpid()] = Sandbox()
    os.makedirs(sb.root, exist_ok=True)
    path = sb.path('tampered.sav')
    with open(path, 'wb') as f:
        f.write(data)
    logging.disable(logging.WARNING)    # "could not re-open file" chatter of a resumed session
    try:
        s = Session.resume(path)
    except BaseException as e:      # noqa: B902
        if isinstance(e, (KeyboardInterrupt, SystemExit, MemoryError)):
            raise
        return None
    finally:
        logging.disable(logging.NOTSET)
    try:
        s.close()
    except Exception:               # noqa: B902
        pass
    return 'Session.resume returned %s' % type(s).__name__


def region(pos):
    if pos < 4:
        return 'checksum'
    if pos < 8:
        return 'format_version'
    if pos < 16:
        return 'python_version'
    if pos < 24:
        return 'pcbasic_version'
    return 'blob'


def check_tamper(case, res):
    data = state_bytes(case['prog'])
    pos = case['pos'] % len(data)
    new = alter(data, pos, case['alt'], case.get('val'))
    res.nt(True)
    if new is None:
        res.label('tamper:no-change')
        return res
    got = try_resume(new)
    if got is not None:
        res.fail('tamper.%s' % region(pos), 'byte %d of %d (%s) %s: %s' % (
            pos, len(data), region(pos), case['alt'], got))
    return res


def run_tamper(shard, nshards, tier, seed, ev):
    # sanity: the unaltered file must load, otherwise every rejection below is meaningless
    progs = [0] if tier == 'quick' else list(range(len(TAMPER_PROGS)))
    for prog in progs:
        data = state_bytes(prog)
        if shard == 0:
            if try_resume(data) is None:
                ev.fail('tamper.original-rejected', {'u': 'tamper', 'prog': prog, 'pos': 0,
                                                     'alt': 'none', 'val': None},
                        'the unaltered state file does not load')
        n = 0
        for pos in range(shard, len(data), nshards):
            if tier == 'quick' and 2048 <= pos < len(data) - 2048 and (pos // nshards) % 4:
                continue        # CRC-32 covers the payload uniformly: every 4th byte in the middle
            if tier == 'quick' and pos >= 24:
                # any single-byte change of the payload is a CRC-32 mismatch: one flip per byte,
                # a cut at every 8th byte and at every byte of the first and last 64
                alts = [(('xor1', 'xor80', 'zero', 'ff')[pos % 4], None)]
                if pos % 8 == 0 or pos < 88 or pos >= len(data) - 64:
                    alts.append(('trunc', None))
            else:
                alts = [('xor1', None), ('xor80', None), ('zero', None), ('ff', None),
                        ('trunc', None)]
            if pos < 24:
                alts += [('set', v) for v in range(256)]
            for alt, val in alts:
                new = alter(data, pos, alt, val)
                if new is None:
                    continue
                n += 1
                got = try_resume(new)
                if got is not None:
                    ev.fail('tamper.%s' % region(pos),
                            {'u': 'tamper', 'prog': prog, 'pos': pos, 'alt': alt, 'val': val},
                            'byte %d of %d (%s) %s %r: %s' % (pos, len(data), region(pos), alt, val,
                                                               got))
        ev.count(n, nontrivial=n, label='tamper:alterations')
        ev.labels['tamper:file-bytes'] += len(data) if shard == 0 else 0
    ev.sample({'u': 'tamper', 'prog': 0, 'pos': 5, 'alt': 'xor1', 'val': None})
    drop_tamper_dir()


def drop_tamper_dir():
    sb = _TAMPER_DIR.pop(os.getpid(), None)
    if sb is not None:
        sb.close()


# --------------------------------------------------------------------------------------------

def check_case(case):
    res = Result()
    u = case['u']
    if u == 'resume':
        return check_resume(case, res)
    if u == 'tamper':
        try:
            if case['alt'] == 'none':
                res.nt(True)
                if try_resume(state_bytes(case['prog'])) is None:
                    res.fail('tamper.original-rejected', 'the unaltered state file does not load')
                return res
            return check_tamper(case, res)
        finally:
            drop_tamper_dir()
    raise ValueError(u)


# --------------------------------------------------------------------------------------------
# program generator: IR -> lines

SIMPLE = [
    'A=A+{n}', 'B=A*{n}-C', 'N%=N%+{n}', 'D#=D#/3+{n}', 'C=INT(RND*100)', 'Z=Z+RND',
    'S$=S$+CHR$({c})', 'T$=MID$(S$+"abc",{m},2)', 'S$=LEFT$(S$,{n})', 'SWAP S$,T$',
    'T$=STR$(A)+LEFT$(T$,20)', 'U$=S$+T$:S$=U$', 'U$=SPACE$({n})+HEX$(N%)',
    'R({r})=A+{n}', 'Q$({q})=S$+"{n}"', 'A=R({r})+1', 'T$=Q$({q})', 'G%({r})=N%',
    'PRINT A;B', 'PRINT S$;"/";T$', 'PRINT "x{n}";', 'PRINT USING "###.##";A', 'PRINT',
    'PRINT TAB({n});"t";N%', 'LOCATE {row},{col}', 'COLOR {n}', 'PRINT Z;D#',
    'READ A', 'READ T$', 'RESTORE', 'B=FNF(A)', 'T$=FNG$(S$)', 'B=FRE("")*0+{n}',
    'MID$(S$,1)="{n}"', 'LSET U$=T$', 'A=VAL(T$)+LEN(S$)', 'C=CSRLIN*100+POS(0)',
    'DEF SEG=&HB800:POKE {n}*2,{c}:DEF SEG', 'KEY {k},"k{n}"', 'N%=N% XOR {n}',
    'IF A>{n} THEN PRINT "gt"; ELSE PRINT "le";', 'IF S$>T$ THEN SWAP S$,T$',
    'IF N% MOD 2 THEN A=A-1:B=B+1 ELSE A=A+1',
]
GFX = [
    'PSET({x},{y}),{g}', 'LINE({x},{y})-({y},{x}),{g}', 'LINE({x},{y})-STEP({n},{n}),{g},B',
    'CIRCLE({x},{y}),{n}+3,{g}', 'DRAW "BM{x},{y}U{n}R{n}D{n}L{n}"', 'PRESET({x},{y})',
    'GET({x},{y})-STEP(3,3),G%', 'PUT({y},{x}),G%,XOR', 'C=POINT({x},{y})',
    'LINE(10,10)-(30,30),3,B:PAINT(20,20),{g},3', 'LINE -({y},{n}),{g}',
]
FILEOUT = ['PRINT#1,A;S$', 'WRITE#1,A,S$,N%', 'PRINT#1,"row{n}"', 'PRINT#1,USING "##.#";B',
           'C=LOC(1)+LOF(1)']
FILEIN = ['IF NOT EOF(2) THEN INPUT#2,T$', 'IF NOT EOF(2) THEN LINE INPUT#2,S$',
          'IF NOT EOF(2) THEN INPUT#2,T$,A', 'C=LOC(2)', 'IF NOT EOF(2) THEN U$=INPUT$(3,2)']
FILERND = ['LSET X$=S$:RSET Y$=T$:PUT 3,{rec}', 'GET 3,{rec}:T$=X$+Y$', 'LSET X$=MKS$(A):PUT 3',
           'GET 3,{rec}:B=CVS(X$)', 'C=LOF(3)+LOC(3)']
ERRS = ['ERROR {e}', 'C=1/(Z*0)', 'A=R(99)', 'T$=MID$(S$,0)', 'B=VAL("1E99")*1E38', 'CLOSE 9:GET 9',
        'N%=40000', 'RETURN', 'READ C,C,C,C,C,C,C,C,C', 'NEXT', 'GOTO 64999']


def conv_statements(kind, ints):
    """Statements of one 'conversation': consecutive buffer operations on the same open file."""
    ent = list(ints) + [0] * 24
    it = iter(ent)

    def pick(seq):
        return seq[next(it) % len(seq)]
    n = 3 + next(it) % 5
    ops = []
    if kind == 'rnd-stream':
        first = 'OPEN "R",1,"RS.DAT",%d' % pick([32, 32, 24, 64])
        if next(it) % 2:
            first += ':FIELD 1,8 AS X$,8 AS Y$'
        pool = ['PRINT#1,"F";I;",";', 'PRINT#1,A;', 'PRINT#1,S$;",";', 'WRITE#1,N%,"w"', 'PRINT#1,"END"',
                'PUT 1,1', 'PUT 1', 'GET 1,1', 'GET 1', 'INPUT#1,T$', 'INPUT#1,U$', 'INPUT#1,A', 'LINE INPUT#1,S$',
                'C=LOC(1)', 'C=LOF(1)', 'B=EOF(1)', 'LSET X$="lx"', 'PRINT#1,USING "##";N%;', 'U$=INPUT$(2,1)',
                'PRINT#1,",q,";']
        # a typical round: compose a record, write it, read it back item by item
        ops = ['PRINT#1,"F";N%;",";', 'PRINT#1,"G,";', 'PRINT#1,"END"', 'PUT 1,1', 'GET 1,1', 'INPUT#1,T$',
               'INPUT#1,U$'][:n] if next(it) % 3 == 0 else []
        ops += [pick(pool) for _ in range(n)]
        last = 'PUT 1,2:CLOSE 1'
    elif kind == 'seq-midline':
        first = pick(['OPEN "O",1,"SM.TXT"', 'OPEN "A",1,"SM.TXT"', 'OPEN "SM.TXT" FOR OUTPUT AS 1:WIDTH #1,20'])
        pool = ['PRINT#1,"a";', 'PRINT#1,A;', 'PRINT#1,"b",', 'PRINT#1,TAB(12);"t";', 'WRITE#1,A,S$', 'PRINT#1,',
                'PRINT#1,SPC(3);N%;', 'PRINT#1,STRING$(15,"x");', 'C=LOC(1)', 'C=LOF(1)', 'PRINT#1,USING "###.#";A;',
                'PRINT#1,"end"', 'WIDTH #1,%d' % pick([10, 40, 255])]
        ops = [pick(pool) for _ in range(n + 1)]
        last = 'PRINT#1,"last":CLOSE 1'
    elif kind == 'input-midline':
        first = 'OPEN "I",1,"IN.TXT"'
        pool = ['INPUT#1,T$', 'INPUT#1,A', 'IF NOT EOF(1) THEN INPUT#1,U$', 'IF NOT EOF(1) THEN LINE INPUT#1,S$',
                'IF NOT EOF(1) THEN U$=INPUT$(2,1)', 'B=EOF(1)', 'C=LOC(1)', 'C=LOF(1)', 'IF NOT EOF(1) THEN INPUT#1,T$,U$']
        ops = ['INPUT#1,T$'] + [pick(pool) for _ in range(n)]
        last = 'C=LOC(1):CLOSE 1'
    elif kind == 'getput-pointer':
        first = 'OPEN "R",1,"GP.DAT",8:FIELD 1,4 AS X$,4 AS Y$'
        pool = ['LSET X$=S$:PUT 1', 'PUT 1', 'GET 1', 'GET 1:T$=X$', 'PUT 1,%d' % pick([1, 2, 5]), 'GET 1,%d' % pick([1, 2, 3]),
                'C=LOC(1)', 'C=LOF(1)', 'B=EOF(1)', 'RSET Y$=STR$(N%)', 'LSET X$=MKS$(A):PUT 1', 'GET 1:A=CVS(X$)']
        ops = ['LSET X$="ab":PUT 1'] + [pick(pool) for _ in range(n)]
        last = 'C=LOC(1):CLOSE 1'
    else:
        first = pick(['OPEN "SCRN:" FOR OUTPUT AS 1', 'OPEN "LPT1:" FOR OUTPUT AS 1', 'OPEN "SCRN:" FOR OUTPUT AS 1:WIDTH #1,10',
                      'OPEN "LPT1:" FOR OUTPUT AS 1:WIDTH "LPT1:",12'])
        pool = ['PRINT#1,"ab";', 'PRINT#1,A;', 'PRINT#1,STRING$(7,"x");', 'C=POS(0)', 'C=LPOS(1)', 'LPRINT "p";', 'LPRINT A',
                'PRINT "s";', 'PRINT#1,TAB(5);"t";', 'PRINT#1,', 'WIDTH #1,%d' % pick([8, 20, 255]), 'C=CSRLIN*100+POS(0)',
                'WIDTH LPRINT %d' % pick([5, 80])]
        ops = [pick(pool) for _ in range(n + 1)]
        last = 'C=LPOS(1)+POS(0):CLOSE 1'
    return first, ops, last


def fmt(template, n):
    return template.format(
        n=n, c=65 + n % 26, m=1 + n % 3, r=n % 6, q=n % 4, row=1 + (n * 3) % 23,
        col=1 + (n * 7) % 38, k=1 + n % 10, x=(n * 13) % 150, y=(n * 29) % 90, g=n % 4,
        rec=1 + n % 4, e=(1 + n % 30, 50 + n % 27, 255)[n % 3])


class Renderer(object):
    """Flattens the IR into numbered lines. Statements are packed 1-3 per line."""

    def __init__(self, ir):
        self.ir = ir
        self.items = []         # ('s', text) | ('label', id) | ('brk',)
        self.nlabel = 0
        self.gfx = ir['screen'] in (1, 2)
        self.nsubs = len(ir['subs'])

    def label(self):
        self.nlabel += 1
        return self.nlabel

    def emit(self, text, last=False):
        self.items.append(('s', text, last))

    def simple(self, sel, n, pool=None):
        if pool is None:
            pool = SIMPLE + (GFX if self.gfx else [])
        t = fmt(pool[sel % len(pool)], n)
        # IF statements swallow the rest of their line
        self.emit(t, last=t.startswith('IF '))

    def block(self, nodes, depth, ctx):
        for node in nodes:
            self.node(node, depth, ctx)

    def node(self, node, depth, ctx):
        kind = node[0]
        if kind == 's':
            self.simple(node[1], node[2])
        elif kind == 'io':
            pools = {'out': FILEOUT, 'in': FILEIN, 'rnd': FILERND}
            live = [p for p in ('out', 'in', 'rnd') if p in ctx]
            if live:
                self.simple(node[1], node[2], pools[live[node[1] % len(live)]])
            else:
                self.simple(node[1], node[2])
        elif kind == 'for':
            var = 'IJ'[depth % 2] if depth < 2 else 'W'
            _, n, step, body, named = node
            lo, hi = (1, n) if step > 0 else (n, 1)
            self.emit('FOR %s=%d TO %d%s' % (var, lo, hi, '' if step == 1 else ' STEP %d' % step))
            self.block(body, depth + 1, ctx)
            self.emit('NEXT %s' % var if named else 'NEXT')
        elif kind == 'while':
            _, n, body = node
            var = 'W%d' % depth
            self.emit('%s=0' % var)
            self.emit('WHILE %s<%d' % (var, n))
            self.emit('%s=%s+1' % (var, var))
            self.block(body, depth + 1, ctx)
            self.emit('WEND')
        elif kind == 'gosub':
            if self.nsubs:
                self.emit('GOSUB @S%d' % (node[1] % self.nsubs))
            else:
                self.simple(node[1], node[1])
        elif kind == 'ongosub':
            if self.nsubs:
                tg = ','.join('@S%d' % ((node[1] + i) % self.nsubs) for i in range(2))
                self.emit('ON (N% AND 1)+1 GOSUB ' + tg)
            else:
                self.simple(node[1], 3)
        elif kind == 'skip':
            # conditional forward jump over a body
            _, sel, n, body = node
            lab = self.label()
            cond = ['A>%d' % n, 'N%% MOD 2=%d' % (n % 2), 'LEN(S$)>%d' % n, 'B<>B', '1'][sel % 5]
            form = sel % 3
            if form == 0:
                self.emit('IF %s THEN @L%d' % (cond, lab), last=True)
            elif form == 1:
                self.emit('IF %s THEN GOTO @L%d ELSE A=A+1' % (cond, lab), last=True)
            else:
                nxt = self.label()
                self.emit('ON -(%s)+1 GOTO @L%d,@L%d' % (cond, nxt, lab))
                self.items.append(('label', 'L%d' % nxt))
            self.block(body, depth, ctx)
            self.items.append(('label', 'L%d' % lab))
        elif kind == 'err':
            # without a handler the first error would end the program: keep those programs going
            self.simple(node[1], node[2], ERRS if self.ir['handler'] else None)
        elif kind == 'conv':
            _, k, ints = node
            if ctx or depth > 0:
                self.simple(k, k)
                return
            first, ops, last = conv_statements(CONV_KINDS[k % len(CONV_KINDS)], ints)
            for part in first.split(':'):
                self.emit(part)
            for i, op in enumerate(ops):
                self.emit(op, last=op.startswith('IF '))
                if i == 0:
                    self.emit('K%%=%d' % (k % len(CONV_KINDS) + 1))
                if i == len(ops) - 2:
                    self.emit('K%=0')
            self.emit('K%=0')
            for part in last.split(':'):
                self.emit(part)
        elif kind == 'file':
            _, which, body = node
            if which in ctx or depth > 0:
                self.block(body, depth, ctx)
                return
            if which == 'out':
                mode = ['"O",1,"F1.TXT"', '"A",1,"F1.TXT"', '"O",#1,"F2.DAT"'][len(body) % 3]
                self.emit('OPEN ' + mode)
                close = 'CLOSE 1'
            elif which == 'in':
                self.emit('OPEN "I",2,"IN.TXT"')
                close = 'CLOSE 2'
            else:
                self.emit('OPEN "R",3,"RF.DAT",16')
                self.emit('FIELD 3,8 AS X$,8 AS Y$')
                close = 'CLOSE 3'
            self.block(body, depth, ctx | {which})
            self.emit(close if len(body) % 4 else 'CLOSE')
        else:
            raise ValueError(kind)

    def render(self):
        ir = self.ir
        pre = []
        if ir['handler']:
            pre.append('ON ERROR GOTO @H')
        pre.append('K%=0')
        pre.append('DIM R(5),Q$(3),G%(40)')
        pre.append('DEF FNF(X)=X*2+A')
        pre.append('DEF FNG$(X$)=LEFT$(X$+"fn",3)')
        if ir['seed'] is not None:
            pre.append('RANDOMIZE %d' % ir['seed'])
        if ir['screen']:
            pre.append('SCREEN %d' % ir['screen'])
        if ir['tron']:
            pre.append('TRON')
        if ir['width40'] and not ir['screen']:
            pre.append('WIDTH 40')
        for p in pre:
            self.emit(p)
        self.items.append(('brk',))
        self.block(ir['main'], 0, frozenset())
        end = ['END', 'SYSTEM', 'STOP', None][ir['end'] % 4]
        if end is None and (ir['subs'] or ir['handler']):
            end = 'END'
        if end:
            self.emit(end)
        for i, body in enumerate(ir['subs']):
            self.items.append(('label', 'S%d' % i))
            # subs may call only higher-numbered subs: no recursion
            saved = self.nsubs
            self.nsubs = 0
            self.block(body, 1, frozenset())
            self.nsubs = saved
            if i + 1 < saved and len(body) % 2:
                self.emit('GOSUB @S%d' % (i + 1))
            self.emit('RETURN')
        if ir['handler']:
            self.items.append(('label', 'H'))
            self.emit('E=E+1')
            self.emit('EC=ERR')
            self.emit('EL=ERL')
            h = ir['handler']
            if h == 1:
                self.emit('RESUME NEXT')
            elif h == 2:
                self.emit('PRINT "err";ERR;')
                self.emit('RESUME NEXT')
            else:
                # retry once with the cause removed where possible, else skip
                self.emit('IF E<3 AND ERR=11 THEN Z=1:RESUME NEXT', last=True)
                self.emit('IF E>6 THEN RESUME @END', last=True)
                self.emit('RESUME NEXT')
            self.items.append(('label', 'END'))
            self.emit('PRINT "bye";E')
            self.emit('END')
        self.items.append(('brk',))
        self.emit('DATA 1,2,3,4.5,5', last=True)
        self.emit('DATA 6,7,8', last=True)
        return self.pack(ir['pack'])

    def pack(self, pattern):
        """items -> text lines with labels resolved."""
        lines = []          # list of [stmts]
        labels = {}
        cur = None
        pi = 0
        want = 1
        pending_after = []
        for it in self.items:
            if it[0] in ('label', 'brk', 'pending'):
                cur = None
                if it[0] != 'brk':
                    labels[it[1]] = len(lines)        # index of the next line
                continue
            _, text, last = it
            if cur is None or len(cur) >= want:
                cur = []
                lines.append(cur)
                want = 1 + (pattern[pi % len(pattern)] % 3) if pattern else 1
                pi += 1
            cur.append(text)
            if last:
                cur = None
        out = []
        for i, stmts in enumerate(lines):
            out.append('%d %s' % (10 * (i + 1), ':'.join(stmts)))
        text = '\n'.join(out)
        # a label after the last line points at a final line
        nlines = len(lines)
        for name, idx in labels.items():
            if idx >= nlines:
                out.append('%d END' % (10 * (nlines + 1)))
                nlines += 1
                break
        text = '\n'.join(out)
        for name in sorted(labels, key=len, reverse=True):
            text = text.replace('@' + name, str(10 * (min(labels[name], nlines - 1) + 1)))
        return text.split('\n')


def render(ir):
    return {'u': 'resume', 'lines': Renderer(ir).render(), 'ks': None}


def strat_ir():
    small = st.integers(0, 9)
    sel = st.integers(0, 60)
    simple = st.tuples(st.just('s'), sel, small)
    io = st.tuples(st.just('io'), sel, small)
    err = st.tuples(st.just('err'), sel, small)
    gosub = st.tuples(st.just('gosub'), st.integers(0, 3))
    ongosub = st.tuples(st.just('ongosub'), st.integers(0, 3))
    leaf = st.one_of(simple, simple, simple, io, io, gosub, gosub, err, ongosub)

    def extend(children):
        body = st.lists(children, min_size=1, max_size=3)
        count = st.sampled_from([1, 2, 2, 3])
        return st.one_of(
            st.tuples(st.just('for'), count, st.sampled_from([1, 1, 2, -1]), body, st.booleans()),
            st.tuples(st.just('while'), count, body),
            st.tuples(st.just('skip'), st.integers(0, 14), small, body),
            st.tuples(st.just('file'), st.sampled_from(['out', 'in', 'rnd', 'out']), body),
        )
    node = st.recursive(leaf, extend, max_leaves=6)
    body = st.lists(node, min_size=1, max_size=3)
    iobody = st.lists(st.one_of(io, io, node), min_size=1, max_size=4)
    filesec = st.tuples(st.just('file'), st.sampled_from(['out', 'in', 'rnd']), iobody)
    conv = st.tuples(st.just('conv'), st.integers(0, len(CONV_KINDS) - 1),
                     st.lists(st.integers(0, 99), min_size=12, max_size=12))
    mainbody = st.lists(st.one_of(node, node, filesec, conv), min_size=1, max_size=5)
    return st.fixed_dictionaries({
        'handler': st.sampled_from([0, 1, 1, 2, 3]),
        'seed': st.one_of(st.none(), st.integers(-5, 5)),
        'screen': st.sampled_from([0, 0, 0, 1, 2]),
        'tron': st.sampled_from([False, False, False, True]),
        'width40': st.sampled_from([False, False, False, True]),
        'end': st.integers(0, 3),
        'main': mainbody,
        'subs': st.lists(body, max_size=2),
        'pack': st.lists(st.integers(0, 2), min_size=1, max_size=8),
    })


def gen_fileops(shard, nshards, tier, seed):
    """Directed programs: for every file kind a conversation interrupted between any two of its
    operations (all boundaries), a few variants per kind, inside and outside a loop."""
    import random
    variants = 2 if tier == 'quick' else 12
    j = 0
    for v in range(variants):
        for k in range(len(CONV_KINDS)):
            j += 1
            if j % nshards != shard:
                continue
            rng = random.Random(1000 * v + k + (seed if tier == 'thorough' else 0))
            ints = [rng.randrange(100) for _ in range(12)]
            main = [('s', rng.randrange(40), rng.randrange(10)), ('conv', k, ints)]
            if v % 2:
                main.append(('for', 2, 1, [('s', 18, 1)], True))
                main.append(('conv', (k + 2) % len(CONV_KINDS), [rng.randrange(100) for _ in range(12)]))
            ir = {'handler': [1, 0, 2][v % 3], 'seed': None, 'screen': 0, 'tron': False, 'width40': False,
                  'end': 0, 'main': main, 'subs': [], 'pack': [v % 3, k % 3, 1]}
            yield render(ir)


def strat_resume():
    return strat_ir().map(render)


def units(tier):
    return [
        Unit('resume', 'hyp', shards={'quick': 12, 'thorough': 16},
             examples={'quick': 4, 'thorough': 190},
             strategy=strat_resume, per_case_timeout=300.0),
        Unit('fileops', 'enum', shards={'quick': 2, 'thorough': 8}, gen=gen_fileops,
             per_case_timeout=300.0),
        Unit('tamper', 'bulk', shards={'quick': 4, 'thorough': 16}, run=run_tamper,
             exhaustive=(tier == 'thorough')),
    ]


REGRESSIONS = [
    # fixed 498e4eab: boundary right after a control transfer (loop back-edge, taken IF..THEN line,
    # GOTO, RETURN) used to lose the jump on resume
    {'u': 'resume', 'ks': None, 'lines': [
        '10 FOR I=1 TO 3', '20 PRINT I;', '30 NEXT', '40 IF I<10 THEN GOTO 60', '50 PRINT "skipped"',
        '60 PRINT "done"']},
    {'u': 'resume', 'ks': None, 'lines': [
        '10 ON ERROR GOTO 100', '20 GOSUB 60:PRINT "back";A', '30 ON 2 GOTO 40,50', '40 PRINT "no"',
        '50 ERROR 5:PRINT "after";E:END', '60 A=A+1:IF A<3 THEN 60', '70 RETURN',
        '100 E=E+1:RESUME NEXT']},
    {'u': 'resume', 'ks': None, 'lines': [
        '10 OPEN "O",1,"F1.TXT":OPEN "R",3,"RF.DAT",16:FIELD 3,8 AS X$,8 AS Y$',
        '20 FOR I=1 TO 3:PRINT#1,I;"row":LSET X$=STR$(I):PUT 3,I:NEXT',
        '30 CLOSE 1:OPEN "I",2,"F1.TXT"', '40 WHILE NOT EOF(2):LINE INPUT#2,S$:PRINT S$:WEND',
        '50 GET 3,2:PRINT X$:CLOSE:SCREEN 1:PSET(5,5),2:CIRCLE(50,50),20:PRINT "g"']},
    # finding: file open for APPEND when suspended -> embedded EOF byte after resume
    {'u': 'resume', 'ks': None, 'lines': ['10 OPEN "A",1,"F.TXT"', '20 PRINT#1,"x"', '30 CLOSE'],
     'files': {'F.TXT': 'old\r\n\x1a'}},
    # fixed 68d5bb59: format_version (bytes 4-7) was not checked
    {'u': 'tamper', 'prog': 0, 'pos': 4, 'alt': 'xor1', 'val': None},
    {'u': 'tamper', 'prog': 0, 'pos': 7, 'alt': 'xor80', 'val': None},
    {'u': 'tamper', 'prog': 0, 'pos': 0, 'alt': 'none', 'val': None},
]

KILLS = [
    "Interpreter.__getstate__ drops for_stack -> diff.output, diff.vars, diff.screen, diff.pixels",
    "Interpreter.__getstate__ drops gosub_stack -> diff.output, diff.screen",
    "Interpreter.__getstate__ drops error_resume -> diff.output, diff.vars",
    "state.pickle_file loses the file position (pos=0) -> diff.files, diff.output",
    "state.unpickle_file does not restore the contents of a 'w' mode file -> diff.files",
    "revert of fix 498e4eab (Exit at a statement boundary keeps the old current_statement) -> "
    "diff.output, diff.vars, diff.files, diff.screen (regressions 1-3 and generated programs)",
    "load_session without the format_version check -> tamper.format_version",
    "load_session without the python_minor check -> tamper.python_version",
    "load_session without the CRC comparison -> tamper.checksum, tamper.blob",
    "seeded: FieldFile.__getstate__/__setstate__ drop the position inside the FIELD record buffer "
    "-> diff.files, diff.vars, diff.output (fileops unit and random resume unit, boundaries "
    "labelled interrupt-between-ops:rnd-stream)",
    "survives, equivalent since fix 498e4eab: dropping ins.seek(current_statement) in "
    "Interpreter.__setstate__ (the stream position is pickled and equals current_statement)",
]
