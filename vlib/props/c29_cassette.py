"""
C29 - files written to a cassette image read back intact.

A case is a tape session: 1-4 files (data, ASCII program, tokenised program, protected program,
BSAVE image) with generated names, lengths and contents are written to a fresh CAS or WAV image by
one session; the session is closed; a second session attached to the same image reads a generated
increasing selection of the files by name (or "next file" with an empty name), the others being
skipped on the way.

Model: the list of (name, type, content).  Oracle per read:
  * the console shows exactly one "<name>.<type> Skipped." line for every file passed over, in tape
    order, then "<name>.<type> Found." for the requested file (name padded to 8, type letter as
    written);
  * data files: the bytes read with INPUT$ (or the lines read with LINE INPUT#) equal the bytes
    written, EOF() is 0 before the last byte and -1 right after it, nothing follows;
  * programs: the program memory image after LOAD equals the image the writer session held when
    it saved (read from the Implementation object of both sessions), the protected flag is set
    exactly for type P;
  * BSAVE images: after BLOAD the memory block equals the block that was saved (dumped through a
    disk BSAVE in the reader session and compared on the host);
  * afterwards the next selected file is still found - so nothing of a file may be consumed by, or
    leak into, its neighbour.
Independent second opinion for CAS images: vlib/props-local parser `parse_cas` decodes the image
bit stream by the documented IBM cassette format (leader, sync, 256-byte blocks + CRC-16, count
byte) and must yield the same (name, type, content) list.
"""
import os
import struct

from hypothesis import strategies as st

from vlib.core import Result, Unit
from vlib import harness
from vlib import wallsess

ID = 'C29'
LEVEL = 'exploration'
RULE = ("Tape sessions of 1-4 files; types D (data via PRINT#;), A/B/P (program saved ,A / plain / "
        ",P), M (BSAVE of a video-memory block); content lengths 0..1100 with emphasis on "
        "k*255-2..k*255+2, k*256-1..k*256+1, 254/255/256, 164/165 (count byte 0xA5) and 0/1; "
        "every type x key length (0 = empty body incl. BSAVE of 0 bytes and SAVE after NEW, 1, 254, "
        "255, 256, 510, 511) x tape position first/middle/last enumerated on CAS and WAV; "
        "contents printable / all byte values / constant 0xFF, 0x00, 0xA5, 0x16 runs; names 1-8 "
        "characters (also equal names on files of different type); CAS and (small) WAV images; "
        "data files are read back either in 255-byte aligned INPUT$ requests, line by line, or by a "
        "generated plan of INPUT$(n) requests (1..255 bytes, misaligning first request, cycles "
        "of sizes, mixed with LINE INPUT#) so that requests start at, end at and straddle the "
        "255-byte record payload at every alignment; "
        "writer session closed, reader session reads an increasing selection by name or by "
        "'next file', only the last file (all others skipped), or every file by name in shuffled "
        "order with the tape reopened before each read. Non-trivial: at least 2 files on the tape and some content length within 2 "
        "of a multiple of 255 or 256, or 0. Distinct = distinct session.")
ASSUMPTIONS = [
    "files are read in tape order (a name that lies behind the tape position is found only after "
    "the Device Timeout rewind; that GW-BASIC behaviour is exercised but only the rewind-and-find "
    "is asserted)",
    "data file contents exclude byte 0x1A (end-of-file character of text files on every device) ",
    "INPUT$ requests are at most 255 bytes (the longest BASIC string), so one request can straddle "
    "one record boundary, not two; field-wise INPUT# is not mixed into the generated read plans "
    "(its separator/quote rules on arbitrary content belong to C24); LOC is Illegal function call "
    "on cassette files and is not exercised",
    "names are 1-8 characters without blanks or control characters, as the statement says; name "
    "matching is case-sensitive as written",
    "program images are compared as the interpreter's stored bytecode of the two sessions (state "
    "read); ASCII programs are built from lines whose listing re-tokenises to the same bytes",
    "BSAVE blocks live in text video page 1 (B800:1000h..), which console messages do not touch; "
    "the read-back dump uses BSAVE to a disk file",
    "the independent CAS decoder assumes the documented IBM PC cassette record format "
    "(fileformats.archiveteam.org/wiki/IBM_PC_data_cassette), which is what the module states it "
    "writes; WAV images are only checked through the round trip",
]
TECHNIQUE = ("Hypothesis tape sessions, write/close/reopen/read round trip against a list model, "
             "plus an independent decoder of the CAS bit stream")

TYPES = ['D', 'A', 'B', 'P', 'M']
MEM_OFF = 4096          # B800:1000 - text page 1
MAXLEN = 1100
KEY_LENGTHS = (0, 1, 254, 255, 256, 510, 511)


# --------------------------------------------------------------------------------------------
# deterministic content

def gen_bytes(n, style, seed):
    """n content bytes, deterministic in (style, seed)."""
    if style == 'ff':
        return b'\xff' * n
    if style == 'zero':
        return b'\x00' * n
    if style == 'a5':
        return b'\xa5' * n
    if style == 'sync':
        # a leader-like run (>=512 one bits, sync bit, sync byte 0x16) placed in the second block
        return (b'\x00' * 300 + b'\xff' * 80 + b'\x0b' + b'\x52' * 100 + b'\x16' * n)[:n]
    out = bytearray()
    x = (seed * 2654435761 + 12345) & 0xffffffff
    for _ in range(n):
        x = (x * 1103515245 + 12345) & 0x7fffffff
        v = (x >> 16) & 0xff
        if style == 'print':
            v = 0x20 + v % 95
        elif v == 0x1a:
            v = 0x1b
        out.append(v)
    return bytes(out)


def gen_lines(n, seed):
    """printable text of exactly n bytes made of CR-terminated lines (last may be unterminated)."""
    raw = bytearray(gen_bytes(n, 'print', seed))
    pos = 20 + seed % 60
    while pos < n:
        raw[pos] = 13
        pos += 30 + (seed + pos) % 200
    return bytes(raw)


# --------------------------------------------------------------------------------------------
# independent CAS decoder (documented format; does not import pcbasic)

def _crc16(data):
    rem = 0xffff
    for d in data:
        rem ^= d << 8
        for _ in range(8):
            rem <<= 1
            if rem & 0x10000:
                rem ^= 0x1021
            rem &= 0xffff
    return rem ^ 0xffff


class _Bits(object):
    def __init__(self, data):
        self.bits = ''.join('{:08b}'.format(b) for b in data)
        self.pos = 0

    def find_leader(self):
        """position after leader (>=512 one bits), sync bit 0 and sync byte 0x16; False at end."""
        while True:
            i = self.bits.find('1' * 512, self.pos)
            if i < 0:
                return False
            j = i
            n = len(self.bits)
            while j < n and self.bits[j] == '1':
                j += 1
            if j + 9 > n:
                return False
            self.pos = j + 1
            if self.bits[j + 1:j + 9] == '00010110':
                self.pos = j + 9
                return True

    def byte(self):
        if self.pos + 8 > len(self.bits):
            raise ValueError('tape image ends inside a block')
        v = int(self.bits[self.pos:self.pos + 8], 2)
        self.pos += 8
        return v

    def block(self):
        data = bytes(self.byte() for _ in range(256))
        crc = self.byte() * 256 + self.byte()
        if crc != _crc16(data):
            raise ValueError('CRC mismatch in block at bit %d' % self.pos)
        return data


def parse_cas(image):
    """CAS image bytes -> [(name8, typeletter, content)] by the documented record format."""
    bits = _Bits(image)
    files = []
    tokens = {0: 'D', 1: 'M', 0xa0: 'P', 0x20: 'P', 0x40: 'A', 0x80: 'B'}
    while bits.find_leader():
        head = bits.block()
        if head[0] != 0xa5:
            raise ValueError('expected a header record, found first byte %02x' % head[0])
        name = head[1:9]
        token, length, seg, offs = struct.unpack('<BHHH', head[9:16])
        typ = tokens.get(token, '?%02x' % token)
        if typ in ('D', 'A'):
            content = b''
            while True:
                if not bits.find_leader():
                    raise ValueError('file %r has no closing record' % name)
                rec = bits.block()
                if rec[0] == 0:
                    content += rec[1:]
                else:
                    content += rec[1:rec[0]]
                    break
        else:
            content = b''
            if not bits.find_leader():
                raise ValueError('file %r has no data record' % name)
            while len(content) < length:
                content += bits.block()
            content = content[:length]
        files.append((name, typ, content))
    return files


def record_bits(data):
    """bit image of one multi-block record body (256-byte blocks, last one filled with its last
    byte, each followed by CRC-16, then the 31-bit trailer) as documented."""
    out = []
    while data:
        blk, data = data[:256], data[256:]
        blk = blk + blk[-1:] * (256 - len(blk))
        crc = _crc16(blk)
        out.append(blk + bytes([crc >> 8, crc & 0xff]))
    return ''.join('{:08b}'.format(b) for b in b''.join(out)) + '1' * 30 + '0'


def confusable(ftype, ondisk):
    """
    Known defect region ('skip.body-not-skipped'): when this file is passed over, the reader does
    not skip its body by structure but scans for the next record that starts with 0xA5, so
      * a text/data file whose closing record has count byte 0xA5 (stored length % 255 == 164),
      * a program/memory record whose first byte is 0xA5,
      * a program/memory record with a leader-like bit pattern after its first block
    is mistaken for a file header (or breaks the scan).  `ondisk` = stored bytes, None if unknown.
    """
    if ondisk is None:
        return False
    if ftype in ('D', 'A'):
        return len(ondisk) % 255 == 164
    if ondisk[:1] == b'\xa5':
        return True
    if len(ondisk) > 256:
        bits = record_bits(ondisk)
        return ('1' * 512) in bits[258 * 8 - 520:]
    return False


# --------------------------------------------------------------------------------------------
# building files in the writer session

def _chunks(data, n=255):
    return [data[i:i + n] for i in range(0, len(data), n)] or []


def build_program(s, target, seed):
    """
    Enter a program whose stored image is as close as possible to `target` bytes
    (exactly, when target >= 12). Returns the bytecode image.
    """
    s.execute(b'NEW')
    if target <= 0:
        # the empty program: SAVE after NEW
        return s.impl.program.bytecode.getvalue()
    lines = []
    # each line '<n> REM<payload>' costs 2 (link) + 2 (number) + 2 (":REM" tokens are 1 byte: REM)
    # -> measured instead of assumed: enter, measure, then pad the last line
    num = 10
    remaining = max(0, target)
    body = gen_bytes(2000, 'print', seed).replace(b'"', b"'").replace(b':', b';')
    k = 0
    while True:
        take = min(200, max(0, remaining - 8))
        lines.append((num, body[k:k + take]))
        k += take
        remaining -= take + 8
        num += 10
        if remaining <= 8 or len(lines) > 20:
            break
    for n, payload in lines:
        s.execute(b'%d REM %s' % (n, payload))
    size = len(s.impl.program.bytecode.getvalue())
    # adjust the last line to hit the target exactly where possible
    want = target + 1          # saved length is len(image) - 1
    n, payload = lines[-1]
    delta = want - size
    if delta > 0:
        payload = payload + b'x' * min(delta, 240 - len(payload))
    elif delta < 0:
        payload = payload[:max(0, len(payload) + delta)]
    s.execute(b'%d REM %s' % (n, payload))
    return s.impl.program.bytecode.getvalue()


def poke_block(s, data):
    """Put `data` at B800:MEM_OFF.. : one BLOAD of a host-written image from the scratch disk
    (a POKE loop costs 0.15 ms per byte)."""
    path = os.path.join(s.sandbox.z, 'BLK.BIN')
    with open(path, 'wb') as f:
        f.write(b'\xfd' + struct.pack('<HHH', 0xb800, MEM_OFF, len(data)) + data + b'\x1a')
    s.execute(b'DEF SEG=&HB800:BLOAD "Z:BLK.BIN",%d' % MEM_OFF)
    os.remove(path)


def type_of_save(t):
    return {'A': b',A', 'B': b'', 'P': b',P'}[t]


# --------------------------------------------------------------------------------------------
# oracle

def _norm_files(case):
    files = []
    for f in case['files']:
        name = f['name'].encode('latin-1')[:8]
        files.append({'name': name, 'type': f['type'], 'len': min(MAXLEN, max(0, f['len'])),
                      'style': f.get('style', 'print'), 'seed': f.get('seed', 0),
                      'lines': bool(f.get('lines', False)), 'rd': f.get('rd')})
    return files


def _msg(name, typ, word):
    return name.ljust(8) + b'.' + typ.encode() + b' ' + word + b'.'


def check_case(case):
    res = Result()
    sb = harness.Sandbox()
    wallsess.reset()
    try:
        _check(case, res, sb)
    finally:
        sb.close()
    if wallsess.hit():
        # the runner's per-case wall limit cut a statement short somewhere: nothing observed
        # afterwards can be trusted
        res = Result()
        res.inconclusive = True
        res.label('case-wall-limit')
    return res


def _fail_outcome(res, o, what):
    if o.kind == 'budget':
        res.inconclusive = True
        return True
    if o.kind == 'escaped' and o.exc == 'CaseTimeout':
        # the runner's per-case wall limit fired inside the interpreter: inconclusive
        res.inconclusive = True
        res.label('case-wall-limit')
        return True
    if o.kind == 'escaped':
        res.fail('escaped.%s@%s' % (o.exc, o.frame), '%s -> %r\n%s' % (what, o, o.tb))
        return True
    return False


def _check(case, res, sb):
    files = _norm_files(case)
    fmt = case.get('fmt', 'cas')
    tape = sb.path('tape.' + fmt)
    spec = ('WAV:' if fmt == 'wav' else 'CAS:') + tape
    desc = 'tape %s files %r' % (fmt, [(f['name'], f['type'], f['len'], f['style'], f['seed'])
                                       for f in files])
    near = False
    for f in files:
        ln = f['len']
        if ln == 0 or min(ln % 255, 255 - ln % 255) <= 2 or min(ln % 256, 256 - ln % 256) <= 2:
            near = True
    res.nt(len(files) >= 2 and near)
    res.label('fmt:' + fmt, 'nfiles:%d' % len(files))
    # ---------------- writer session
    s = wallsess.WallSess(sandbox=sb, budget=60000, video='cga',
                     devices={'Z': sb.z, 'CAS1': spec},
                     hide_protected=True)
    try:
        for f in files:
            t = f['type']
            nm = b'CAS1:' + f['name']
            s.set('N$', nm)
            res.label('type:' + t, 'style:' + f['style'])
            if f['len'] in KEY_LENGTHS:
                where = ('only' if len(files) == 1 else 'first' if f is files[0] else
                         'last' if f is files[-1] else 'middle')
                res.label('keylen:%d:%s' % (f['len'], t), 'keylen-pos:' + where)
                if f['len'] == 0:
                    res.label('empty:%s@%s' % (t, where))
            lm = f['len'] % 255
            res.label('len%255:' + ('0' if lm == 0 else '254' if lm == 254 else '1' if lm == 1
                                    else '164-5' if lm in (164, 165) else 'other'))
            if t == 'D':
                content = (gen_lines(f['len'], f['seed']) if f['lines']
                           else gen_bytes(f['len'], f['style'], f['seed']))
                f['content'] = content
                o = s.execute(b'OPEN "O",1,N$')
                if _fail_outcome(res, o, desc + ' open-write ' + repr(nm)):
                    return
                if o.errors:
                    res.fail('write.error', '%s: OPEN for output %r -> %r' % (desc, nm, o.errors))
                    return
                for ch in _chunks(content):
                    s.set('D$', ch)
                    o = s.execute(b'PRINT#1,D$;')
                    if _fail_outcome(res, o, desc + ' print'):
                        return
                    if o.errors:
                        res.fail('write.error', '%s: PRINT# -> %r' % (desc, o.errors))
                        return
                o = s.execute(b'CLOSE 1')
            elif t in ('A', 'B', 'P'):
                f['image'] = build_program(s, f['len'], f['seed'])
                f['content'] = f['image'][1:]
                s.set('N$', nm)             # NEW cleared it
                o = s.execute(b'SAVE N$' + type_of_save(t))
            else:
                content = gen_bytes(f['len'], f['style'], f['seed'])
                f['content'] = content
                poke_block(s, content)
                o = s.execute(b'DEF SEG=&HB800:BSAVE N$,%d,%d' % (MEM_OFF, len(content)))
            if _fail_outcome(res, o, desc + ' write ' + repr(nm)):
                return
            if o.errors:
                res.fail('write.error', '%s: writing %r -> %r' % (desc, nm, o.errors))
                return
    finally:
        c = s.close()
    if c is not None:
        res.fail('escaped.%s@%s' % (c.exc, c.frame), desc + ' closing the writer session')
        return
    # ---------------- independent decode of the image
    decoded = None
    if fmt == 'cas':
        with open(tape, 'rb') as fh:
            image = fh.read()
        try:
            decoded = parse_cas(image)
        except ValueError as e:
            res.fail('image.undecodable', '%s: %s' % (desc, e))
            decoded = None
        if decoded is not None:
            exp = []
            for f in files:
                if f['type'] in ('D',):
                    exp.append((f['name'].ljust(8), 'D', f['content']))
                elif f['type'] == 'M':
                    exp.append((f['name'].ljust(8), 'M', f['content']))
                else:
                    exp.append((f['name'].ljust(8), f['type'], None))
            got = [(n, t, (c if e[2] is not None else None)) for (n, t, c), e in zip(decoded, exp)]
            if len(decoded) != len(exp) or got != exp:
                def short(lst):
                    return [(n, t, None if c is None else (len(c), c[:12], c[-12:]))
                            for n, t, c in lst]
                res.fail('image.content', '%s: image decodes to %r, expected %r' % (
                    desc, short(decoded), short(exp)))
    # stored form of every file, for the known-region predicate
    for k, f in enumerate(files):
        if f['type'] in ('D', 'M', 'B'):
            f['ondisk'] = f['content']
        elif fmt == 'cas' and decoded is not None and k < len(decoded):
            f['ondisk'] = decoded[k][2]
        else:
            f['ondisk'] = None
    # ---------------- reader session
    reads = case.get('reads') or [{'i': i} for i in range(len(files))]
    s = wallsess.WallSess(sandbox=sb, budget=60000, video='cga',
                     devices={'Z': sb.z, 'CAS1': spec},
                     hide_protected=True)
    reopen = bool(case.get('reopen', False))
    if reopen:
        res.label('reads:reopen-each')
    if case.get('reads') and len(reads) == 1 and len(files) > 1 \
            and reads[0]['i'] % len(files) == len(files) - 1 and not reads[0].get('any'):
        res.label('reads:last-only')
    try:
        pos = 0
        for rn, r in enumerate(reads):
            if reopen and rn:
                # a fresh reader session: the tape starts again at its beginning, so files can be
                # asked for in any order
                c = s.close()
                if c is not None:
                    res.fail('escaped.%s@%s' % (c.exc, c.frame), desc + ' closing a reader')
                    return
                s = wallsess.WallSess(sandbox=sb, budget=60000, video='cga',
                                 devices={'Z': sb.z, 'CAS1': spec}, hide_protected=True)
                pos = 0
            if pos >= len(files):
                break
            i = pos + r['i'] % (len(files) - pos)
            anyname = bool(r.get('any', False))
            f = files[i]
            t = f['type']
            # which file does the interpreter have to find?  first file at or after the tape
            # position whose name matches (any name if empty) and whose type the statement accepts
            accept = {'D': 'D', 'A': 'ABP', 'B': 'ABP', 'P': 'ABP', 'M': 'M'}[t]
            req = b'' if anyname else f['name']
            target = None
            for j in range(pos, len(files)):
                if (anyname or files[j]['name'] == req) and files[j]['type'] in accept:
                    target = j
                    break
            f = files[target]
            t = f['type']
            res.label('read:' + t, 'skipped:%d' % (target - pos), 'read:any' if anyname else
                      'read:byname')
            s.set('N$', b'CAS1:' + req)
            rdesc = '%s; reading %r (file %d) from position %d' % (desc, req, target, pos)
            if t == 'D':
                o = s.execute(b'OPEN "I",1,N$')
            elif t == 'M':
                o = s.execute(b'DEF SEG=&HB800:BLOAD N$,%d' % MEM_OFF)
            else:
                o = s.execute(b'NEW')
                s.set('N$', b'CAS1:' + req)
                o = s.execute(b'LOAD N$')
            if _fail_outcome(res, o, rdesc):
                return
            region = any(confusable(files[j]['type'], files[j]['ondisk'])
                         for j in range(pos, target))
            if region:
                res.label('region:skip-confusable')
            lines = [ln for ln in o.output.replace(b'\n', b'').split(b'\r') if ln]
            exp_lines = [_msg(files[j]['name'], files[j]['type'], b'Skipped')
                         for j in range(pos, target)] + [_msg(f['name'], t, b'Found')]
            if o.errors or lines != exp_lines:
                if region:
                    res.fail('skip.body-not-skipped', '%s: console %r expected %r' % (
                        rdesc, lines, exp_lines))
                elif o.errors:
                    res.fail('read.not-found', '%s: %r' % (rdesc, o))
                else:
                    res.fail('read.messages', '%s: console %r expected %r' % (
                        rdesc, lines, exp_lines))
                return
            # contents
            if t == 'D':
                if not _check_data(s, res, f, rdesc):
                    return
            elif t == 'M':
                s.execute(b'DEF SEG=&HB800:BSAVE "Z:CHK.BIN",%d,%d' % (MEM_OFF, len(f['content'])))
                try:
                    with open(os.path.join(sb.z, 'CHK.BIN'), 'rb') as fh:
                        dump = fh.read()
                    os.remove(os.path.join(sb.z, 'CHK.BIN'))
                except OSError:
                    dump = b''
                got = dump[7:7 + len(f['content'])]
                if got != f['content']:
                    k = next((x for x in range(min(len(got), len(f['content'])))
                              if got[x] != f['content'][x]), min(len(got), len(f['content'])))
                    res.fail('read.bload-content', '%s: memory differs from byte %d on: %r vs %r'
                             % (rdesc, k, got[k:k + 16], f['content'][k:k + 16]))
                    return
                # wipe the block so that the next BLOAD cannot pass on stale memory
                poke_block(s, b'\x00' * len(f['content']))
            else:
                img = s.impl.program.bytecode.getvalue()
                if img != f['image']:
                    res.fail('read.program-content', '%s: program image differs: %d vs %d bytes, '
                             '%r vs %r' % (rdesc, len(img), len(f['image']), img[:24],
                                           f['image'][:24]))
                    return
                prot = bool(s.impl.program.protected)
                if prot != (t == 'P'):
                    res.fail('read.protected-flag', '%s: protected=%r for type %s' % (
                        rdesc, prot, t))
                    return
                s.execute(b'NEW')
            pos = target + 1
        # a name that is not on the rest of the tape: Device Timeout, then the tape is rewound
        if case.get('tail', False):
            s.set('N$', b'CAS1:NOSUCH')
            o = s.execute(b'OPEN "I",1,N$')
            if _fail_outcome(res, o, desc + ' tail'):
                return
            tail_region = any(confusable(files[j]['type'], files[j]['ondisk'])
                              for j in range(pos, len(files)))
            if o.err != 24:
                res.fail('skip.body-not-skipped' if tail_region else 'read.tail-not-timeout',
                         '%s: reading a missing name at position %d gave %r, expected Device '
                         'Timeout' % (desc, pos, o))
                return
            res.label('tail')
            f = files[0]
            accept = {'D': 'D', 'A': 'ABP', 'B': 'ABP', 'P': 'ABP', 'M': 'M'}[f['type']]
            s.set('N$', b'CAS1:' + f['name'])
            st_ = {'D': b'OPEN "I",1,N$', 'M': b'DEF SEG=&HB800:BLOAD N$,%d' % MEM_OFF}.get(
                f['type'], b'LOAD N$')
            s.execute(b'NEW')
            s.set('N$', b'CAS1:' + f['name'])
            o = s.execute(st_)
            if _fail_outcome(res, o, desc + ' after-rewind'):
                return
            if o.errors or _msg(f['name'], f['type'], b'Found') not in o.output:
                if o.err == 55 and pos < len(files):
                    # known defect: the search passed at least one header before the end of tape
                    res.fail('timeout.tape-stays-open', '%s: after Device Timeout (search from '
                             'position %d) the next open gives %r' % (desc, pos, o))
                else:
                    res.fail('read.after-rewind', '%s: first file not found after the rewind: %r'
                             % (desc, o))
    finally:
        c = s.close()
    if c is not None:
        res.fail('escaped.%s@%s' % (c.exc, c.frame), desc + ' closing the reader session')


def _check_data_plan(s, res, f, rdesc):
    """
    Read the file with a generated plan: a cycle of INPUT$(n,1) requests (1 <= n <= 255, the
    longest BASIC string) and, for CR-structured printable content, LINE INPUT# - so that
    requests start, end and straddle the 255-byte record payload at every alignment.  Model: a
    position in the written bytes.  Everything read, concatenated, must equal what was written;
    no error before the written length is exhausted; EOF exactly at the end.
    """
    content = f['content']
    plan = [op for op in f['rd'] if op == 'L' or (isinstance(op, int) and 1 <= op <= 255)]
    if not f['lines']:
        plan = [op for op in plan if op != 'L']
    if not plan:
        plan = [255]
    pos = 0
    k = 0
    res.label('read:plan')
    while pos < len(content):
        e = s.evaluate(b'EOF(1)')
        if e.kind != 'ok' or e.errors or e.value != 0:
            res.fail('read.eof-early', '%s: EOF(1)=%r after %d of %d bytes (plan %r)' % (
                rdesc, e.value if e.kind == 'ok' else e, pos, len(content), plan))
            return False
        op = plan[k % len(plan)]
        k += 1
        if op == 'L':
            idx = content.find(b'\r', pos)
            exp = content[pos:] if idx < 0 else content[pos:idx]
            npos = len(content) if idx < 0 else idx + 1
            o = s.execute(b'LINE INPUT#1,L$')
            var = 'L$'
            what = 'LINE INPUT#'
        else:
            n = min(op, len(content) - pos)
            exp = content[pos:pos + n]
            npos = pos + n
            o = s.execute(b'A$=INPUT$(%d,1)' % n)
            var = 'A$'
            what = 'INPUT$(%d,1)' % n
            if pos // 255 != (npos - 1) // 255:
                res.label('chunk-straddles-record')
            if npos % 255 == 0:
                res.label('chunk-ends-at-record-end')
            if pos % 255 == 0 and pos:
                res.label('chunk-starts-at-record-start')
        if o.kind != 'ok' or o.errors:
            res.fail('read.data-error', '%s: %s at offset %d of %d -> %r (plan %r)' % (
                rdesc, what, pos, len(content), o, plan))
            return False
        got = bytes(s.get(var))
        if got != exp:
            res.fail('read.data-content', '%s: %s at offset %d of %d returned %d bytes %r, '
                     'expected %d bytes %r (plan %r)' % (rdesc, what, pos, len(content), len(got),
                                                        got[:24], len(exp), exp[:24], plan))
            return False
        pos = npos
    return True


def _check_data(s, res, f, rdesc):
    content = f['content']
    got = b''
    if f.get('rd'):
        if not _check_data_plan(s, res, f, rdesc):
            return False
    elif f['lines']:
        # LINE INPUT#: lines separated by CR
        exp_lines = content.split(b'\r') if content else []
        if content.endswith(b'\r'):
            exp_lines = exp_lines[:-1]
        got_lines = []
        for _ in range(len(exp_lines) + 3):
            e = s.evaluate(b'EOF(1)')
            if e.value != 0:
                break
            o = s.execute(b'LINE INPUT#1,L$')
            if o.kind != 'ok' or o.errors:
                res.fail('read.data-error', '%s: LINE INPUT# -> %r' % (rdesc, o))
                return False
            got_lines.append(bytes(s.get('L$')))
        if got_lines != exp_lines:
            k = next((x for x in range(min(len(got_lines), len(exp_lines)))
                      if got_lines[x] != exp_lines[x]), min(len(got_lines), len(exp_lines)))
            res.fail('read.data-lines', '%s: %d lines read, %d written; first difference at line '
                     '%d: %r vs %r' % (rdesc, len(got_lines), len(exp_lines), k,
                                      got_lines[k:k + 1], exp_lines[k:k + 1]))
            return False
    else:
        for ch in _chunks(content):
            e = s.evaluate(b'EOF(1)')
            if e.kind != 'ok' or e.errors or e.value != 0:
                res.fail('read.eof-early', '%s: EOF(1)=%r after %d of %d bytes' % (
                    rdesc, e.value if e.kind == 'ok' else e, len(got), len(content)))
                return False
            o = s.execute(b'A$=INPUT$(%d,1)' % len(ch))
            if o.kind != 'ok' or o.errors:
                res.fail('read.data-error', '%s: INPUT$ after %d of %d bytes -> %r' % (
                    rdesc, len(got), len(content), o))
                return False
            got += bytes(s.get('A$'))
        if got != content:
            k = next((x for x in range(min(len(got), len(content))) if got[x] != content[x]),
                     min(len(got), len(content)))
            res.fail('read.data-content', '%s: data differs from byte %d on: %r vs %r' % (
                rdesc, k, got[k:k + 16], content[k:k + 16]))
            return False
    e = s.evaluate(b'EOF(1)')
    if e.kind != 'ok' or e.errors or e.value != -1:
        extra = b''
        o = s.execute(b'A$=INPUT$(40,1)')
        if o.kind == 'ok' and not o.errors:
            extra = bytes(s.get('A$'))
        res.fail('read.eof-late', '%s: EOF(1)=%r after all %d bytes; following bytes %r' % (
            rdesc, e.value if e.kind == 'ok' else e, len(content), extra))
        return False
    o = s.execute(b'CLOSE 1')
    return True


# --------------------------------------------------------------------------------------------
# generators

# The grammar is written against the random.Random API: the 'hyp' units pass a Hypothesis-
# controlled Random (st.randoms(): shrinkable draws), the 'rand' units random.Random(shard seed).

def _edge_lengths():
    edges = []
    for k in range(0, 5):
        for d in (-2, -1, 0, 1, 2):
            for m in (255, 256):
                v = k * m + d
                if 0 <= v <= MAXLEN:
                    edges.append(v)
    edges += [0, 1, 2, 164, 165, 163, 253, 254, 255, 256, 257, 419, 420, 509, 510, 511]
    return sorted(set(edges))


EDGE_LENGTHS = _edge_lengths()
NAME_CHARS = 'ABCDEFGHIJKLMNOPQRSTUVWXYZ0123456789'
FIXED_NAMES = ['A', 'DATA', 'PROG', 'ABCDEFGH', 'X1', 'FOUND', 'Skipped.', 'A.B']
STYLES = ['print'] * 4 + ['bytes'] * 4 + ['ff', 'zero', 'a5', 'sync']


def rand_length(rng):
    r = rng.random()
    if r < 0.2:
        return rng.choice(KEY_LENGTHS)
    if r < 0.5:
        return rng.choice(EDGE_LENGTHS)
    if r < 0.75:
        return rng.randint(0, 600)
    return rng.randint(0, MAXLEN)


def rand_name(rng):
    r = rng.random()
    if r < 0.45:
        return ''.join(rng.choice(NAME_CHARS) for _ in range(rng.randint(1, 8)))
    if r < 0.8:
        return ''.join(rng.choice(NAME_CHARS + 'abcxyz_-$#!.') for _ in range(rng.randint(1, 8)))
    return rng.choice(FIXED_NAMES)


CHUNK_SIZES = [1, 2, 3, 7, 37, 100, 127, 128, 200, 254, 255]


def rand_plan(rng, lines):
    """a cycle of read requests; None = the default (255-byte aligned INPUT$ / all LINE INPUT#)"""
    r = rng.random()
    if r < 0.35:
        return None
    if r < 0.6:
        # misaligning first request, then a fixed size
        return [rng.randint(1, 255)] + [rng.choice(CHUNK_SIZES)] * 40
    plan = [rng.choice(CHUNK_SIZES) if rng.random() < 0.5 else rng.randint(2, 255)
            for _ in range(rng.randint(1, 5))]
    if lines:
        plan = [('L' if rng.random() < 0.4 else op) for op in plan] + ['L']
    return plan


def rand_file(rng):
    t = rng.choice(TYPES)
    ln = rand_length(rng)
    f = {'name': rand_name(rng), 'type': t, 'len': ln,
         'style': rng.choice(STYLES) if t in ('D', 'M') else 'print',
         'seed': rng.randint(0, 999), 'lines': t == 'D' and rng.random() < 0.33}
    if t == 'D':
        plan = rand_plan(rng, f['lines'])
        if plan:
            f['rd'] = plan
    return f


def _dedupe(files):
    """names unique per acceptance class unless the generator explicitly repeats across types"""
    seen = set()
    out = []
    for f in files:
        cls = 'P' if f['type'] in 'ABP' else f['type']
        key = (f['name'], cls)
        if key in seen:
            f = dict(f, name=(f['name'][:6] + '%d' % len(out))[:8])
            key = (f['name'], cls)
        seen.add(key)
        out.append(f)
    return out


def rand_tape(rng, fmt='cas', maxfiles=4, maxlen=MAXLEN):
    n = min(maxfiles, rng.choice([1, 2, 2, 2, 3, 3, 4]))
    files = [rand_file(rng) for _ in range(n)]
    files = [dict(f, len=min(f['len'], maxlen)) for f in files]
    same = rng.choice([0, 0, 0, 1, 2, 3])
    if same == 1 and n >= 2:
        files[1] = dict(files[1], name=files[0]['name'])
    elif same == 2 and n >= 2 and len(files[1]['name']) > 1:
        # an earlier file whose name is a proper prefix of a later one
        files[0] = dict(files[0], name=files[1]['name'][:max(1, len(files[1]['name']) // 2)])
    elif same == 3 and n >= 2 and len(files[1]['name']) < 8:
        files[0] = dict(files[0], name=files[1]['name'] + 'X')
    files = _dedupe(files)
    case = {'fmt': fmt, 'files': files, 'tail': rng.random() < 0.25}
    mode = rng.random()
    if mode < 0.35:
        case['reads'] = [{'i': rng.randint(0, 3), 'any': rng.random() < 0.25}
                         for _ in range(rng.randint(1, 4))]
    elif mode < 0.5:
        case['reads'] = [{'i': n - 1}]                  # search for the last file: skip all others
    elif mode < 0.7:
        order = list(range(n))
        rng.shuffle(order)
        case['reads'] = [{'i': k} for k in order]       # every file by name, any order,
        case['reopen'] = True                           # tape reopened before each
    return case


def strat_tape(fmt='cas', maxfiles=4, maxlen=MAXLEN):
    return st.randoms(use_true_random=False).map(lambda rng: rand_tape(rng, fmt, maxfiles, maxlen))


RAND_COUNTS = {'cas': {'quick': 45, 'thorough': 3000}, 'wav': {'quick': 12, 'thorough': 150}}


def _gen_rand(fmt, maxfiles, maxlen):
    def gen(shard, nshards, tier, seed):
        import random
        rng = random.Random(seed)
        for _ in range(RAND_COUNTS[fmt][tier]):
            yield rand_tape(rng, fmt, maxfiles, maxlen)
    return gen


def gen_edges(shard, nshards, tier, seed):
    """every type x every edge length, followed by a second file that must still be readable."""
    cases = []
    edge = [0, 1, 2, 163, 164, 165, 253, 254, 255, 256, 257, 509, 510, 511, 512, 764, 765, 766,
            768, 1019, 1020, 1021, 1024]
    if tier == 'thorough':
        edge = list(range(0, 1100))
    for t in TYPES:
        for ln in edge:
            for follow in (('D', 10), ('B', 40)):
                cases.append({'fmt': 'cas', 'tail': False, 'files': [
                    {'name': 'FIRST', 'type': t, 'len': ln, 'style': 'bytes', 'seed': ln},
                    {'name': 'SECOND', 'type': follow[0], 'len': follow[1], 'style': 'print',
                     'seed': 1}]})
    # reading only the second file: the first is skipped
    for t in TYPES:
        for ln in edge[:16]:
            cases.append({'fmt': 'cas', 'tail': True, 'reads': [{'i': 1}], 'files': [
                {'name': 'FIRST', 'type': t, 'len': ln, 'style': 'a5', 'seed': ln},
                {'name': 'SECOND', 'type': 'D', 'len': 20, 'style': 'print', 'seed': 2}]})
    # same name on files of different type: LOAD must pass the data file, OPEN the program;
    # 'next file' reads must pass files of the wrong type; a missing name then rewinds the tape
    for t0, t1 in (('D', 'B'), ('B', 'D'), ('M', 'A'), ('P', 'M'), ('D', 'M'), ('A', 'D')):
        two = [{'name': 'SAME', 'type': t0, 'len': 20, 'style': 'print', 'seed': 3},
               {'name': 'SAME', 'type': t1, 'len': 33, 'style': 'print', 'seed': 4}]
        cases.append({'fmt': 'cas', 'tail': True, 'reads': [{'i': 1}], 'files': two})
        cases.append({'fmt': 'cas', 'tail': False, 'reads': [{'i': 1, 'any': True}], 'files': two})
        cases.append({'fmt': 'cas', 'tail': True, 'reads': [{'i': 0}], 'files': two})
    # names that are prefixes / extensions of each other: the search must match the whole name
    for t in TYPES:
        for n0, n1 in (('ABCX', 'ABC'), ('ABC', 'ABCX'), ('A', 'AB'), ('AB', 'A'),
                       ('ABCDEFGH', 'ABCDEFG'), ('ABCDEFG', 'ABCDEFGH')):
            cases.append({'fmt': 'cas', 'tail': False, 'reads': [{'i': 1}], 'files': [
                {'name': n0, 'type': t, 'len': 30, 'style': 'print', 'seed': 5},
                {'name': n1, 'type': t, 'len': 40, 'style': 'print', 'seed': 6}]})
    return iter(cases[shard::nshards])


def gen_positions(shard, nshards, tier, seed):
    """
    Every file type x every key length (0 = empty body, 1, 254, 255, 256, 510, 511) at the first,
    middle and last position of a three-file tape, CAS (all) and WAV (subset in quick), read
    (a) in tape order, (b) only the last file (all others skipped), (c) every file by name in a
    shuffled order with the tape reopened before each read.
    """
    import random
    rng = random.Random(20290)          # fixed: this is an enumeration, not a sample
    others = [('D', 7), ('B', 25), ('M', 12), ('A', 30), ('P', 18), ('M', 0), ('D', 0)]
    cases = []
    k = 0
    for fmt in ('cas', 'wav'):
        for t in TYPES:
            for ln in KEY_LENGTHS:
                for posn in (0, 1, 2):
                    if fmt == 'wav' and tier == 'quick' and not (
                            ln in (0, 1, 255) and t in ('M', 'D', 'B')):
                        continue
                    files = []
                    for j in range(3):
                        if j == posn:
                            files.append({'name': 'KEY%d' % j, 'type': t, 'len': ln,
                                          'style': 'bytes', 'seed': ln + j})
                        else:
                            ot, ol = others[(k + j) % len(others)]
                            files.append({'name': 'F%d' % j, 'type': ot, 'len': ol,
                                          'style': 'print', 'seed': k + j})
                    k += 1
                    order = [0, 1, 2]
                    rng.shuffle(order)
                    modes = [{}, {'reads': [{'i': 2}]},
                             {'reads': [{'i': x} for x in order], 'reopen': True}]
                    if fmt == 'wav':
                        modes = [modes[k % 3]]
                    for md in modes:
                        cases.append(dict({'fmt': fmt, 'tail': False, 'files': files}, **md))
    return iter(cases[shard::nshards])


def gen_chunks(shard, nshards, tier, seed):
    """
    Data files of more than 1, 2, 3 and 4 records read with INPUT$(n,1): every n of CHUNK_SIZES
    from offset 0, and n = 100 / 2 / 255 after a first request f that puts the following requests
    at every alignment with the 255-byte records (quick: every 16th f and the ones around the
    boundary; thorough: all f = 1..255), mixed LINE INPUT#/INPUT$ plans, CAS and a few WAV.
    """
    cases = []

    def tape(fmt, ln, plan, lines=False, seed_=0):
        return {'fmt': fmt, 'tail': False, 'files': [
            {'name': 'LONG', 'type': 'D', 'len': ln, 'style': 'print' if lines else 'bytes',
             'seed': seed_, 'lines': lines, 'rd': plan},
            {'name': 'AFTER', 'type': 'D', 'len': 9, 'style': 'print', 'seed': 1}]}
    for ln in (256, 300, 510, 511, 700, 766, 1021):
        for n in CHUNK_SIZES:
            cases.append(tape('cas', ln, [n], seed_=ln + n))
    firsts = range(1, 256) if tier == 'thorough' else (
        list(range(1, 255, 16)) + [54, 55, 56, 154, 155, 156, 252, 253, 254, 255])
    for f1 in firsts:
        for n in (100, 2, 255):
            cases.append(tape('cas', 700, [f1] + [n] * 400, seed_=f1))
    for k, plan in enumerate((['L', 100], [37, 'L', 'L'], ['L', 255, 1, 'L'], [200, 'L'],
                              ['L', 2, 254], [128, 127, 'L'])):
        for ln in (300, 600, 1000):
            cases.append(tape('cas', ln, plan, lines=True, seed_=k * 7 + ln))
    for ln, plan in ((700, [100]), (600, [37]), (520, [254, 2]), (300, ['L', 100])):
        cases.append(tape('wav', ln, plan, lines='L' in plan, seed_=ln))
    return iter(cases[shard::nshards])


def units(tier):
    return [
        Unit('chunks', 'enum', shards={'quick': 8, 'thorough': 16}, gen=gen_chunks),
        Unit('positions', 'enum', shards=16, gen=gen_positions),
        Unit('edges-cas', 'enum', shards={'quick': 8, 'thorough': 16}, gen=gen_edges),
        Unit('tapes-cas-rand', 'enum', shards=16, gen=_gen_rand('cas', 4, MAXLEN)),
        Unit('tapes-wav-rand', 'enum', shards={'quick': 4, 'thorough': 16},
             gen=_gen_rand('wav', 3, 530)),
        Unit('tapes-cas', 'hyp', shards=4, examples={'quick': 25, 'thorough': 1200},
             strategy=lambda: strat_tape('cas')),
        Unit('tapes-wav', 'hyp', shards=2, examples={'quick': 4, 'thorough': 80},
             strategy=lambda: strat_tape('wav', maxfiles=3, maxlen=530)),
    ]


REGRESSIONS = [
    # seeded change (wave 5): CassetteStream.read returned short at the end of a record, so an
    # INPUT$ request that straddles two records failed with Input past end
    {'fmt': 'cas', 'tail': False, 'files': [
        {'name': 'LONG', 'type': 'D', 'len': 700, 'style': 'bytes', 'seed': 5, 'rd': [100]}]},
    # seeded change (wave 4): an empty BSAVE image lost its (empty) data record, so the file
    # after it could not be found
    {'fmt': 'cas', 'tail': False, 'reads': [{'i': 1}], 'files': [
        {'name': 'M0', 'type': 'M', 'len': 0, 'style': 'bytes', 'seed': 0},
        {'name': 'NEXT', 'type': 'D', 'len': 5, 'style': 'print', 'seed': 2}]},
    {'fmt': 'wav', 'tail': False, 'files': [
        {'name': 'A', 'type': 'D', 'len': 3, 'style': 'print', 'seed': 1},
        {'name': 'M0', 'type': 'M', 'len': 0, 'style': 'bytes', 'seed': 0},
        {'name': 'NEXT', 'type': 'B', 'len': 0, 'style': 'print', 'seed': 2}]},
    # fixed ab228b4a (skip.body-not-skipped): closing record with count byte 0xA5 taken for a header
    {'fmt': 'cas', 'tail': False, 'reads': [{'i': 1}], 'files': [
        {'name': 'FIRST', 'type': 'D', 'len': 164, 'style': 'print', 'seed': 1},
        {'name': 'SECOND', 'type': 'D', 'len': 20, 'style': 'print', 'seed': 2}]},
    # same root cause: leader-like pattern in the second block of a skipped BSAVE image
    {'fmt': 'cas', 'tail': False, 'reads': [{'i': 1}], 'files': [
        {'name': 'MEM', 'type': 'M', 'len': 481, 'style': 'sync', 'seed': 0},
        {'name': 'TWO', 'type': 'D', 'len': 4, 'style': 'print', 'seed': 2}]},
    # fixed ab228b4a (timeout.tape-stays-open): after Device Timeout every open gave File already open
    {'fmt': 'cas', 'tail': True, 'reads': [{'i': 0}], 'files': [
        {'name': 'ONE', 'type': 'D', 'len': 3, 'style': 'print', 'seed': 1},
        {'name': 'TWO', 'type': 'D', 'len': 3, 'style': 'print', 'seed': 2}]},
    # fixed cbc1ad73: a 254-byte data file had no closing record; the next header was read as data
    {'fmt': 'cas', 'tail': False, 'files': [
        {'name': 'DATA1', 'type': 'D', 'len': 254, 'style': 'print', 'seed': 1},
        {'name': 'NEXT', 'type': 'D', 'len': 5, 'style': 'print', 'seed': 2}]},
    {'fmt': 'cas', 'tail': False, 'files': [
        {'name': 'DATA1', 'type': 'A', 'len': 509, 'style': 'print', 'seed': 1},
        {'name': 'NEXT', 'type': 'B', 'len': 30, 'style': 'print', 'seed': 2}]},
    {'fmt': 'wav', 'tail': True, 'files': [
        {'name': 'W', 'type': 'D', 'len': 254, 'style': 'bytes', 'seed': 3},
        {'name': 'V', 'type': 'M', 'len': 100, 'style': 'bytes', 'seed': 4}]},
]

KILLS = [
    "cassette.py _flush_record_buffer: `len(data) <= 255` -> `< 255` (the defect fixed in cbc1ad73) "
    "-> image.undecodable, read.not-found (next file lost)",
    "cassette.py _flush_record_buffer: `<= 255` -> `<= 256` -> escaped.error@cassette.py:"
    "_close_record_buffer (count byte 256)",
    "cassette.py _fill_record_buffer: `record[:num_bytes-1]` -> `[:num_bytes]` -> read.eof-late, "
    "read.data-lines",
    "cassette.py open_write: name[:8] -> name[:7] -> image.content, read.messages, read.not-found",
    "cassette.py _write_record: `data[256:]` -> `data[255:]` -> image.content, read.bload-content, "
    "read.program-content",
    "cassette.py _read_record: `record[:reclen]` dropped -> read.program-content",
    "cassette.py open_write: P written with the B token -> image.content, read.messages",
    "cassette.py _search: whole-name match -> prefix match -> read.messages (directed name pairs)",
    "cassette.py _search: type filter ignored -> read.messages",
    "cassette.py _write_block: CRC over data[:-1] -> image.undecodable, read.not-found",
    "cassette.py write_trailer: no trailer -> image.undecodable, read.* (CAS); survives on WAV "
    "(the pause between records makes the trailer redundant there)",
    "cassette.py WAVBitStream: 1-bit half pulse 500 -> 330 us -> read.not-found (WAV unit)",
    "wave-5 seed: CassetteStream.read returns short at the end of the buffered record -> "
    "read.data-error (Input past end on an INPUT$ request that straddles two records; chunks "
    "unit, random read plans, regression)",
    "wave-4 seed: _close_record_buffer writes no (empty) data record for a zero-length BSAVE "
    "image -> image.undecodable, read.messages, read.not-found (positions unit / regression)",
    "cassette.py _search: is_open not reset at end of tape (revert of ab228b4a) -> "
    "timeout.tape-stays-open; body of skipped files not read past (revert) -> "
    "skip.body-not-skipped, read.not-found",
    "SURVIVES: cassette.py _read_block CRC comparison skipped on read - needs a corrupted tape, "
    "which the property does not speak about",
    "SURVIVES: WAVBitStream.write_pause writing no pause - tapes still read back",
]
