"""
C07 - decimal conversion is accurate in both directions.

print : exact bit patterns (set through A$ + CVS/CVD/CVI, or as number tokens of a tokenised program
        file) are shown by STR$, PRINT, PRINT#, WRITE# and LIST; the text is read back by an
        independent decimal reader (vlib/dectext.py) and compared with the exact stored rational
        (vlib/mbf.py).
parse : decimal texts go through Values.from_repr (the anchored observation point: type + bytes),
        VAL, direct and stored program literals (token byte read with PEEK), INPUT (keyboard),
        INPUT# (file) and READ/DATA; the stored bytes are read back with MKD$/MKS$ and compared with
        the exact decimal rational.
"""
import os
import random
import struct
from fractions import Fraction

from hypothesis import strategies as st

from vlib.core import Result, Unit
from vlib import harness, mbf, dectext

ID = 'C07'
LEVEL = 'exploration'
RULE = ("print: single/double bit patterns (uniform random bytes; every exponent byte 0..255 with "
        "boundary mantissas; the 7 neighbours of the float nearest 10^k for every k; integers of "
        "every bit length up to 2^24/2^56; nearest floats of short decimals) and int16 values, shown "
        "by STR$, PRINT, PRINT#, WRITE#, LIST; non-trivial = the stored value is not exactly "
        "representable with 7/16 significant digits (the shown text must round). "
        "parse: texts built from sign, 1..20 digits (random, all-nines, powers of two/ten "
        "neighbours, 7/8-digit and 16/17-digit boundaries), point anywhere, up to 38 leading and 4 "
        "trailing zeros, E/D/e/d exponents placing the value at every decimal magnitude 1E-38..1E38 "
        "(plus under/overflow), sigils !#%, embedded blanks, through from_repr, VAL, literals, "
        "INPUT, INPUT#, READ; non-trivial = the decimal is not exactly representable in the chosen "
        "binary type. distinct = distinct (route, pattern/text).")
ASSUMPTIONS = [
    "unit of the last digit shown is taken from the text as shown (trailing zeros are not shown, so "
    "a short text has a coarse unit); significant digits = first non-zero digit to last digit shown",
    "'integers within the exact range' = stored value integral with |v| < 10^7 (single) / 10^16 "
    "(double): larger integers cannot be shown exactly within the 7/16-digit limit of the statement",
    "parse bound is 1 ulp of the stored value's binade (the coarser one at a power-of-two boundary)",
    "type rule asserted only where the statement is unambiguous: '!' or E with <= 7 digits or <= 7 "
    "digits -> single; '#' or D or >= 8 digits not counting zeros at the end of the fraction -> "
    "double; unsigned blank-free digit string in -32768..32767 -> integer; otherwise (E with >= 8 "
    "digits, 8+ digits only through trailing fraction zeros, '%', signed/blank integer) both "
    "candidate types are accepted with their own bound. Sigil and exponent are alternatives "
    "(manual grammar), never generated together.",
    "decimal values below 2^-128 may be stored as zero and values at or above the type's maximum "
    "may raise Overflow: not asserted either way (statement is silent); only crashes are reported",
    "target-variable conversion (INPUT X!, READ X!) adds one correctly rounded step: bound stays "
    "1 ulp of a single",
    "INPUT# from a file ends a number at a blank (GW-BASIC rule), so embedded blanks are not sent "
    "through that route; '%' is not sent through keyboard INPUT (pcbasic answers ?Redo; silent)",
]
TECHNIQUE = ("seeded bulk enumeration + Hypothesis strategies vs. exact-rational MBF model and an "
             "independent Fraction-based decimal reader; bound checks, no float arithmetic")

MAXSIG = {4: 7, 8: 16}
TWO56 = 1 << 56
# Overflow is accepted from one ulp below the largest single upwards (rounding may carry out)
OVERFLOW_FROM = mbf.MAXVAL[4] * (1 - Fraction(1, 2 ** 23))


# --------------------------------------------------------------------------------------------
# bit-pattern helpers (generation side)

def step_pattern(b, j):
    """The j-th neighbour (in magnitude) of the non-zero MBF value b, or None outside the range."""
    n = len(b)
    p = mbf.PREC[n]
    sign, man, e = mbf.parts(b)
    idx = (e << (p - 1)) + (man - (1 << (p - 1))) + j
    e2 = idx >> (p - 1)
    if not 1 <= e2 <= 255:
        return None
    m2 = (idx & ((1 << (p - 1)) - 1)) | (1 << (p - 1))
    return mbf.encode_parts(sign, m2, e2, n)


def nearest_pattern(x, n):
    """bytes of the n-byte MBF nearest to the exact x, or None if outside the range."""
    if x == 0:
        return bytes(n)
    v = mbf.nearest(x, n)
    try:
        return mbf.encode_value(v, n)
    except ValueError:
        return None


def with_sign(b, neg):
    b = bytearray(b)
    if neg:
        b[-2] |= 0x80
    else:
        b[-2] &= 0x7f
    return bytes(b)


def boundary_mantissas(n):
    p = mbf.PREC[n]
    top = 1 << (p - 1)
    full = (1 << p) - 1
    alt = int('10' * (p // 2), 2)
    return [top, top + 1, top + 2, full, full - 1, full - 2, top | (top >> 1), (top | (top >> 1)) - 1,
            (top | (top >> 1)) + 1, alt, top | (alt >> 1), top + (1 << (p // 2)),
            top + (1 << 8) - 1, top + (1 << 8), full - 0xff, full - 0x7f]


def pattern_from(kind, n, a, b, c):
    """Deterministic map from a few integers to an n-byte pattern of the requested family."""
    p = mbf.PREC[n]
    if kind == 'random':
        return (a % (1 << (8 * n))).to_bytes(n, 'little')
    if kind == 'expbound':
        e = a % 256
        mans = boundary_mantissas(n)
        man = mans[b % len(mans)]
        if e == 0:
            return (man & ((1 << (p - 1)) - 1)).to_bytes(n - 1, 'little') + b'\0'
        return mbf.encode_parts(c & 1, man, e, n)
    if kind == 'pow10':
        k = (a % 78) - 39
        base = nearest_pattern(dectext.ten(k), n)
        if base is None:
            return None
        q = step_pattern(base, (b % 7) - 3)
        return None if q is None else with_sign(q, c & 1)
    if kind == 'int':
        bits = 1 + (a % p)
        v = (b % (1 << bits)) | (1 << (bits - 1))
        if c & 2:
            v = (1 << bits) - 1 - (b % 4)
        if v <= 0:
            v = 1
        return with_sign(mbf.encode_value(Fraction(v), n), c & 1)
    if kind == 'shortdec':
        nd = 1 + a % (MAXSIG[n] + 1)
        d = b % (10 ** nd)
        k = (c % 80) - 42
        q = nearest_pattern(d * dectext.ten(k), n)
        if q is None:
            return None
        return with_sign(q, (c >> 8) & 1)
    raise ValueError(kind)


PRINT_KINDS = ['random', 'random', 'expbound', 'pow10', 'int', 'shortdec']


# --------------------------------------------------------------------------------------------
# print oracle

def in_allnines_region(b):
    """
    finding print.double.carry-to-pow10: a double whose first 16 significant digits (truncated) are
    all nines, i.e. within one unit of the 16th digit below a power of ten.
    """
    if len(b) != 8:
        return False
    exact = abs(mbf.decode(b))
    if exact == 0:
        return False
    k = dectext.exp10_of(exact)
    return dectext.floor_units(exact, 15 - k) == 10 ** 16 - 1


def fail_known(res, key, msg, strict=True):
    """
    A failure inside the region of a (now fixed) finding keeps that finding's own bucket key, so a
    regression of one of those fixes is reported under its name; nothing is excluded any more.
    """
    res.fail(key, msg)


def judge_shown(res, text, b, route, strict=False):
    """Compare one shown text with the exact value of the stored bytes b (2, 4 or 8 bytes)."""
    n = len(b)
    exact = mbf.decode(b)
    d = dectext.read_shown(text)
    where = '%s %s' % (route, bytes(b).hex())
    if d is None:
        res.fail('print.shape', '%s shown as %r: not a decimal number' % (where, text))
        return
    if n == 2:
        res.nt(True)
        if d.value != exact or d.expchar or d.point:
            res.fail('print.int-exact', '%s (%d) shown as %r' % (where, exact, text))
        return
    maxsig = MAXSIG[n]
    if exact.denominator == 1 and abs(exact) < 10 ** maxsig:
        nontrivial = False
        res.label('print.integral')
        if d.value != exact:
            res.fail('print.int-exact', '%s (%d) shown as %r' % (where, exact, text))
    else:
        # exactly representable with maxsig digits? then no rounding is needed
        k = dectext.exp10_of(exact) if exact else 0
        scaled = exact * dectext.ten(maxsig - 1 - k)
        nontrivial = scaled.denominator != 1
    res.nt(nontrivial)
    if d.sig > maxsig:
        res.fail('print.sigdigits', '%s shown as %r: %d significant digits > %d' % (
            where, text, d.sig, maxsig))
    err = abs(d.value - exact)
    if err >= d.unit:
        msg = '%s exact %s shown as %r: off by %.4f units of the last digit' % (
            where, _sci(exact), text, float(err / d.unit))
        if in_allnines_region(b):
            fail_known(res, 'print.double.carry-to-pow10', msg, strict)
        else:
            res.fail('print.unit', msg)
    elif nontrivial and err * 2 > d.unit:
        res.label('print.err>0.5unit')
    if d.expchar:
        res.label('print.scientific')
        want = 'E' if n == 4 else 'D'
        if d.expchar != want:
            res.fail('print.expletter', '%s shown as %r' % (where, text))
    else:
        res.label('print.plain')


def _sci(x):
    try:
        return '%.20g' % float(x)
    except OverflowError:
        return str(x)


_SH = {}


def _shared():
    """A shared session for routes without side effects (evaluate only)."""
    s = _SH.get('s')
    if s is not None and _SH.get('pid') != os.getpid():
        # inherited through fork from the parent: never share (or close) another process's sandbox
        s = None
    if s is None or _SH['n'] > 3000:
        if s is not None:
            s.close()
        _SH['pid'] = os.getpid()
        s = harness.Sess()
        _SH['s'] = s
        _SH['n'] = 0
    _SH['n'] += 1
    return s


def _sandbox():
    """One scratch directory per process for the route checks (every file is rewritten per case)."""
    sb = _SH.get('sb')
    if sb is None or _SH.get('sbpid') != os.getpid():
        sb = harness.Sandbox()
        _SH['sb'] = sb
        _SH['sbpid'] = os.getpid()
    return sb


CV = {2: b'CVI', 4: b'CVS', 8: b'CVD'}


def shown_by_str(b):
    s = _shared()
    s.set('A$', bytes(b))
    o = s.evaluate(b'STR$(' + CV[len(b)] + b'(A$))')
    return o


def check_print_str(case, res):
    b = bytes.fromhex(case['hex'])
    o = shown_by_str(b)
    if o.kind != 'ok' or o.errors or not isinstance(o.value, bytes):
        res.fail('print.%s' % (o.key() if o.kind != 'ok' else 'error'), '%s -> %r' % (case, o))
        return res
    text = o.value.decode('latin-1')
    if text[:1] not in (' ', '-'):
        res.fail('print.shape', 'STR$ of %s gives %r' % (case['hex'], text))
    judge_shown(res, text, b, 'STR$', case.get('strict', False))
    return res


TOKEN = {4: b'\x1d', 8: b'\x1f'}


def number_token(b):
    if len(b) == 2:
        return b'\x1c' + b
    return TOKEN[len(b)] + b


def check_print_batch(case, res):
    """case['vals'] = list of hex patterns; all routes in one fresh session."""
    vals = [bytes.fromhex(h) for h in case['vals']]
    strict = case.get('strict', False)
    with harness.Sess(sandbox=_sandbox()) as s:
        # PRINT# and WRITE# to a file, PRINT to the (cleared) screen
        o = s.execute(b'OPEN "O",1,"F"')
        if o.kind != 'ok' or o.errors:
            res.fail('print.setup', repr(o))
            return res
        screen = []
        for b in vals:
            s.set('A$', b)
            cv = CV[len(b)]
            o = s.execute(b'PRINT#1,' + cv + b'(A$):WRITE#1,' + cv + b'(A$):PRINT ' + cv
                          + b'(A$)')
            if o.kind != 'ok' or o.errors:
                res.fail('print.%s' % (o.key() if o.kind != 'ok' else 'error'),
                         '%s -> %r' % (b.hex(), o))
                return res
            screen.append(o.output)
        s.execute(b'CLOSE')
        with open(s.sandbox.z + '/F', 'rb') as f:
            flines = f.read().split(b'\r\n')
        # LIST of a tokenised program holding the same bit patterns as number tokens
        prog = b''
        for i, b in enumerate(vals):
            prog += b'\x01\x01' + struct.pack('<H', 10 * (i + 1)) + b'A\xe7' + number_token(b) + b'\0'
        with open(s.sandbox.z + '/P.BAS', 'wb') as f:
            f.write(b'\xff' + prog + b'\0\0\x1a')
        o = s.execute(b'LOAD "P.BAS"\nLIST ,"L.TXT"')
        if o.kind != 'ok' or o.errors:
            res.fail('print.list.%s' % (o.key() if o.kind != 'ok' else 'error'), repr(o))
            return res
        with open(s.sandbox.z + '/L.TXT', 'rb') as f:
            llines = f.read().split(b'\r\n')
    for i, b in enumerate(vals):
        # PRINT#: [ -]digits + trailing blank
        pl = flines[2 * i].decode('latin-1')
        wl = flines[2 * i + 1].decode('latin-1')
        sl = screen[i].decode('latin-1')
        if not pl.endswith(' ') or pl[:1] not in ' -':
            res.fail('print.shape', 'PRINT# of %s gives %r' % (b.hex(), pl))
        judge_shown(res, pl[:-1] if pl.endswith(' ') else pl, b, 'PRINT#', strict)
        judge_shown(res, wl, b, 'WRITE#', strict)
        if not sl.endswith(' \r\n') or sl[:1] not in ' -':
            res.fail('print.shape', 'PRINT of %s gives %r' % (b.hex(), sl))
        judge_shown(res, sl.rstrip('\r\n')[:-1] if sl.endswith(' \r\n') else sl.strip(), b, 'PRINT', strict)
        ll = llines[i].decode('latin-1')
        head = '%d A=' % (10 * (i + 1))
        if not ll.startswith(head):
            res.fail('print.shape', 'LIST line %r does not start with %r' % (ll, head))
            continue
        judge_shown(res, ll[len(head):], b, 'LIST', strict)
    return res


# --------------------------------------------------------------------------------------------
# parse side: text construction (generation only; the oracle re-reads the text independently)

SPECIAL_DIGITS = [
    '9', '99', '9999999', '99999999', '999999999999999', '9999999999999999', '99999999999999999',
    '99999999999999999999', '1', '10', '1000000', '10000000', '1234567', '12345678', '12345670',
    '16777215', '16777216', '16777217', '32767', '32768', '32769', '65535', '65536',
    '72057594037927935', '72057594037927936', '72057594037927937', '36028797018963968',
    '1701411', '17014118', '1701411834604692', '17014118346046923', '2938735877055719',
    '29387358770557188', '2938736', '5', '25', '125', '3', '7', '1000000000000000',
    '10000000000000000', '4294967295', '4294967296', '1099511627776', '0', '00', '0000000',
]


def build_text(p):
    """p: dict of small integers -> literal text (well-formed by construction)."""
    fam = p['fam'] % 4
    if fam == 0:
        n = 1 + p['n'] % 20
        digits = str(p['d'] % (10 ** n)).rjust(n, '0')
        if digits[0] == '0':
            digits = '123456789'[p['d'] % 9] + digits[1:]
    elif fam == 1:
        digits = SPECIAL_DIGITS[p['d'] % len(SPECIAL_DIGITS)]
    elif fam == 2:
        # decimal expansion of a power of two or a neighbour, cut to 1..20 digits
        k = p['d'] % 64
        v = (1 << k) + (p['n'] % 5) - 2
        digits = str(max(v, 1))[:20]
    else:
        # exactly 7, 8, 16 or 17 digits
        n = (7, 8, 16, 17)[p['n'] % 4]
        digits = str(p['d'] % (10 ** n)).rjust(n, '0')
        if digits[0] == '0':
            digits = '1' + digits[1:]
    n = len(digits)
    usepoint = p['pt'] % 4 != 0
    pp = p['pp'] % (n + 1) if usepoint else n
    ipart, fpart = digits[:pp], digits[pp:]
    lz = (0, 0, 0, 1, 2, 3)[p['lz'] % 6]
    tz = (0, 0, 0, 1, 2, 4)[p['tz'] % 6]
    if usepoint and pp == 0 and p['lz'] % 17 == 0:
        # long run of zeros right after the point
        fpart = '0' * (p['lz'] % 39) + fpart
    ipart = '0' * lz + ipart
    if usepoint:
        fpart = fpart + '0' * tz
    mant = ipart + ('.' + fpart if usepoint else '')
    # decimal exponent of the leading digit as written
    stripped_i = ipart.lstrip('0')
    if stripped_i:
        k0 = len(stripped_i) - 1
    else:
        k0 = -(len(fpart) - len(fpart.lstrip('0')) + 1)
    expmode = p['em'] % 6
    sigil = ''
    exp = ''
    if expmode >= 2:
        letter = 'EDed'[p['el'] % 4]
        tm = p['k'] % 100
        if tm < 90:
            k = (p['k'] // 100) % 76 - 38
        elif tm < 95:
            k = 38 + (p['k'] // 100) % 4          # near/over the top
        else:
            k = -39 - (p['k'] // 100) % 6         # near/under the bottom
        e = k - k0
        es = '-' if e < 0 else ('+' if p['es'] % 2 else '')
        ed = str(abs(e))
        if p['es'] % 5 == 0:
            ed = ed.rjust(2, '0')
        exp = letter + es + ed
        if p['es'] % 41 == 0:
            exp = letter + ('', '+', '-')[p['es'] % 3]        # exponent digits omitted
    else:
        sigil = ('', '', '', '!', '#', '%')[p['sg'] % 6]
    sign = ('', '', '-', '+')[p['sn'] % 4]
    text = sign + mant + exp + sigil
    # embedded blanks
    nb = (0, 0, 0, 1, 2, 3)[p['nb'] % 6]
    pos = p['bp']
    for _ in range(nb):
        i = pos % (len(text) + 1)
        pos //= 7
        # program text reads "1E -5" as the expression 1E0-5 and "5 %" leaves the % behind:
        # no blank between exponent letter and exponent sign, none before a sigil
        if i < len(text) and text[i] in '!#%':
            continue
        if 0 < i < len(text) and text[i - 1] in 'EDed' and text[i] in '+-':
            continue
        text = text[:i] + ' ' + text[i:]
    return text


P_KEYS = ['fam', 'n', 'd', 'pt', 'pp', 'lz', 'tz', 'em', 'el', 'k', 'es', 'sg', 'sn', 'nb', 'bp']


def strat_params():
    big = st.integers(0, 10 ** 20)
    small = st.integers(0, 9999)
    fields = {k: small for k in P_KEYS}
    fields['d'] = big
    fields['bp'] = st.integers(0, 10 ** 6)
    fields['k'] = st.integers(0, 99999)
    return st.fixed_dictionaries(fields)


def random_params(rng):
    p = {k: rng.randrange(10000) for k in P_KEYS}
    p['d'] = rng.randrange(10 ** 20)
    p['bp'] = rng.randrange(10 ** 6)
    p['k'] = rng.randrange(100000)
    return p


# --------------------------------------------------------------------------------------------
# parse oracle

def allowed_types(d, text):
    """Set of types ('i', 's', 'd') the statement allows for the literal d written as text."""
    if d.sigil == '!':
        return {'s'}
    if d.sigil == '#':
        return {'d'}
    if d.expchar == 'D':
        return {'d'}
    if d.expchar == 'E':
        return {'s'} if d.sig <= 7 else {'s', 'd'}
    int_ok = (not d.point and -32768 <= d.value <= 32767)
    if d.sig <= 7:
        acc = {'s'}
    elif d.sig_nz >= 8:
        acc = {'d'}
    else:
        acc = {'s', 'd'}
    if int_ok:
        if text.isdigit():
            return {'i'}
        acc = acc | {'i'}
    return acc


def is_known_zero_mantissa(d):
    """finding parse.zero-mantissa-posexp: all digits zero and net decimal exponent positive."""
    return int(d.digits or '0') == 0 and d.exp - len(d.fpart) > 0


def is_known_long_mantissa(d, t):
    """
    findings parse.double.ulp.ge17digits / parse.single.ulp.ge8digits: the digits taken as one
    integer (trailing zeros included) do not fit the 56-bit / 24-bit mantissa field of the type.
    """
    return int(d.digits or '0') >= (TWO56 if t == 'd' else 1 << 24)


GROSS_ULP = 8       # inside the long-mantissa regions anything beyond this is a different defect


def judge_stored(res, route, text, d, typ, b, final=None, strict=False):
    """
    typ: observed type 'i'|'s'|'d' or None (unknown: b is then the 8-byte double the value was
    widened to); final: 's' when the value went through a single-precision variable.
    """
    where = '%s %r' % (route, text)
    dec = d.value
    acc = allowed_types(d, text)
    if final == 's':
        acc = {'s'}
    stored = mbf.decode(b)
    # representability -> non-trivial
    n_small = 4 if 's' in acc or 'i' in acc else 8
    res.nt(dec != 0 and not mbf.representable(dec, n_small) if abs(dec) < mbf.MAXVAL[8] else True)
    # out of range: silent
    lim = mbf.MAXVAL[4] if acc == {'s'} else mbf.MAXVAL[8]
    if abs(dec) >= lim:
        res.label('parse.over-range')
        return
    if dec != 0 and abs(dec) < mbf.MINPOS * 2:
        res.label('parse.under-range')
        if stored == 0:
            return
    if typ is not None and final is None:
        if typ not in acc:
            res.fail('parse.type', '%s: stored as %s, statement allows %s' % (
                where, typ, sorted(acc)))
            return
        cands = {typ}
    else:
        cands = set(acc)
    ok = False
    worst = None
    for t in sorted(cands):
        if t == 'i':
            if stored == dec:
                ok = True
            continue
        if t == 's':
            if len(b) == 8:
                if bytes(b[:4]) != b'\0\0\0\0' and stored != 0:
                    continue
                sb = bytes(b[4:])
            else:
                sb = bytes(b)
            u = mbf.ulp(sb)
        else:
            if len(b) != 8:
                continue
            u = mbf.ulp(b)
        e = abs(stored - dec) / u
        if worst is None or e < worst[0]:
            worst = (e, t)
        if e < 1:
            ok = True
            if e * 2 > 1:
                res.label('parse.err>0.5ulp')
    if ok:
        return
    msg = '%s: decimal %s stored as %s (%s): %s' % (
        where, _sci(dec), bytes(b).hex(), _sci(stored),
        'off by %.3f ulp of a %s' % (float(worst[0]), worst[1]) if worst else
        'not a value of the allowed type(s) %s' % sorted(cands))
    if is_known_zero_mantissa(d):
        fail_known(res, 'parse.zero-mantissa-posexp', msg, strict)
    elif worst is None:
        res.fail('parse.type', msg)
    elif is_known_long_mantissa(d, worst[1]) and worst[0] < GROSS_ULP:
        fail_known(res, 'parse.double.ulp.ge17digits' if worst[1] == 'd'
                   else 'parse.single.ulp.ge8digits', msg, strict)
    else:
        res.fail('parse.%s.ulp' % ('single' if worst[1] == 's' else 'double'), msg)


def _classify(res, d):
    res.label('parse.sig=%s' % ('1-7' if d.sig <= 7 else '8-16' if d.sig <= 16 else '17+'))
    res.label('parse.exp=%s' % (d.expchar or 'none'))
    if d.sigil:
        res.label('parse.sigil=' + d.sigil)


TYPE_OF_CLASS = {'Integer': 'i', 'Single': 's', 'Double': 'd'}


def check_parse_repr(case, res):
    """Values.from_repr directly (the anchored observation point): type and bytes."""
    text = case['text']
    d = dectext.read_literal(text)
    if d is None or not d.digits:
        res.label('parse.malformed')
        return res
    _classify(res, d)
    s = _shared()
    vals = s.impl.values
    out = []
    for allow in (True, False):
        if '%' in text and not allow:
            continue
        try:
            v = vals.from_repr(text.encode('latin-1'), allow)
        except harness.error.BASICError as e:
            out.append(('err', e.err))
            continue
        except Exception as e:      # noqa: B902
            res.fail('escaped.%s@from_repr' % type(e).__name__, '%r: %r' % (text, e))
            return res
        out.append((TYPE_OF_CLASS.get(type(v).__name__, '?'), bytes(v.to_bytes())))
    # soft overflow messages land on the shared session's screen; nothing to clean up
    for typ, b in out:
        if typ == 'err':
            if not (abs(d.value) >= OVERFLOW_FROM and b == 6):
                res.fail('parse.error', 'from_repr(%r) raises error %r' % (text, b))
            else:
                res.label('parse.over-range')
            continue
        judge_stored(res, 'from_repr', text, d, typ, b, None, case.get('strict', False))
    return res


TOKEN_TYPE = {0x1c: 'i', 0x0f: 'i', 0x1d: 's', 0x1f: 'd'}
for _t in range(0x11, 0x1c):
    TOKEN_TYPE[_t] = 'i'


def _expect_quiet(res, route, text, o, d):
    """Common handling of an Outcome: crash -> fail; Overflow out of range -> silent stop."""
    if o.kind == 'budget':
        res.inconclusive = True
        return False
    if o.kind != 'ok':
        res.fail('escaped.%s@%s' % (o.exc, o.frame), '%s %r -> %r' % (route, text, o))
        return False
    if o.errors:
        if o.err == 6 and abs(d.value) >= OVERFLOW_FROM:
            res.label('parse.over-range')
            return False
        res.fail('parse.error', '%s %r -> %r' % (route, text, o))
        return False
    return True


def check_parse_routes(case, res):
    text = case['text']
    var = case.get('var', '#')
    strict = case.get('strict', False)
    d = dectext.read_literal(text)
    if d is None or not d.digits:
        res.label('parse.malformed')
        return res
    _classify(res, d)
    btext = text.encode('latin-1')
    final = 's' if var == '!' else None
    mk = b'MKS$(X!)' if var == '!' else b'MKD$(X#)'
    x = b'X' + var.encode()
    blanks = ' ' in text
    with harness.Sess(sandbox=_sandbox()) as s:
        def stored(route):
            o = s.evaluate(mk)
            if o.kind != 'ok' or o.errors or not isinstance(o.value, bytes):
                res.fail('parse.readback', '%s %r -> %r' % (route, text, o))
                return None
            return o.value

        # VAL
        s.set('A$', btext)
        o = s.evaluate(b'MKD$(VAL(A$))')
        if _expect_quiet(res, 'VAL', text, o, d):
            judge_stored(res, 'VAL', text, d, None, o.value, None, strict)
        # literal in a direct statement
        o = s.execute_line(x + b'=' + btext)
        if _expect_quiet(res, 'literal', text, o, d):
            b = stored('literal')
            if b is not None:
                judge_stored(res, 'literal', text, d, None, b, final, strict)
        # literal in a stored program line: token type through PEEK, value after RUN
        s.execute_line(x + b'=0')
        o = s.execute_line(b'10 ' + x + b'=' + btext)
        if _expect_quiet(res, 'program', text, o, d):
            o = s.evaluate(b'PEEK(&H30)+256*PEEK(&H31)')
            start = int(o.value)
            off = start + 4 + 3
            tok = int(s.evaluate(b'PEEK(%d)' % off).value)
            while tok in (0xe9, 0xea, 0x20):       # sign operators and blanks before the number
                off += 1
                tok = int(s.evaluate(b'PEEK(%d)' % off).value)
            typ = TOKEN_TYPE.get(tok)
            o = s.execute(b'RUN')
            if _expect_quiet(res, 'program', text, o, d):
                b = stored('program')
                if b is not None:
                    if typ is None:
                        res.fail('parse.token', 'program %r: token byte &H%02X is not a number' % (
                            text, tok))
                    elif final is None:
                        # the double variable holds the token's value widened exactly
                        b2 = b
                        if typ == 's':
                            if b[:4] != b'\0\0\0\0':
                                res.fail('parse.token', 'single token but value %s' % b.hex())
                            b2 = b[4:]
                        if typ == 'i':
                            judge_stored(res, 'program', text, d, 'i', b, None, strict)
                        else:
                            judge_stored(res, 'program', text, d, typ, b2, None, strict)
                    else:
                        judge_stored(res, 'program', text, d, None, b, final, strict)
        s.execute(b'NEW')
        # READ from DATA
        s.execute_line(b'10 DATA ' + btext)
        s.execute_line(b'20 READ ' + x)
        o = s.execute(b'RUN')
        if _expect_quiet(res, 'READ', text, o, d):
            b = stored('READ')
            if b is not None:
                judge_stored(res, 'READ', text, d, None, b, final, strict)
        s.execute(b'NEW')
        # INPUT from the keyboard
        if '%' not in text:
            s.execute_line(x + b'=0')
            s.s.press_keys(text + '\r')
            o = s.execute(b'INPUT ' + x)
            if b'?Redo' in o.output:
                res.fail('parse.input-redo', 'INPUT %r -> %r' % (text, o))
            elif _expect_quiet(res, 'INPUT', text, o, d):
                b = stored('INPUT')
                if b is not None:
                    judge_stored(res, 'INPUT', text, d, None, b, final, strict)
        # INPUT# from a file (a blank ends a number there)
        if not blanks:
            with open(s.sandbox.z + '/N.TXT', 'wb') as f:
                f.write(b'  ' + btext + b'\r\n')
            s.execute_line(x + b'=0')
            o = s.execute(b'OPEN "I",1,"N.TXT":INPUT#1,' + x + b':CLOSE')
            if _expect_quiet(res, 'INPUT#', text, o, d):
                b = stored('INPUT#')
                if b is not None:
                    judge_stored(res, 'INPUT#', text, d, None, b, final, strict)
    return res


# --------------------------------------------------------------------------------------------

def check_case(case):
    res = Result()
    u = case['u']
    if u == 'print':
        return check_print_str(case, res)
    if u == 'printb':
        return check_print_batch(case, res)
    if u == 'repr':
        return check_parse_repr(case, res)
    if u == 'parse':
        return check_parse_routes(case, res)
    raise ValueError(u)


# --------------------------------------------------------------------------------------------
# units

def _judged(case):
    """check_case under the runner's per-case wall limit (a hang becomes 'inconclusive')."""
    import sys
    from vlib.run import judge
    return judge(sys.modules[__name__], case, 30.0)


def _rand_pattern(rng, n):
    kind = rng.choice(PRINT_KINDS)
    return pattern_from(kind, n, rng.getrandbits(64), rng.getrandbits(64), rng.getrandbits(16))


def run_print_bulk(shard, nshards, tier, seed, ev):
    rng = random.Random(seed)
    count = 3000 if tier == 'quick' else 250000
    nt = 0
    done = 0
    seen = set()
    for i in range(count):
        n = 4 if i % 2 == 0 else 8
        b = _rand_pattern(rng, n)
        if b is None or b in seen:
            continue
        seen.add(b)
        case = {'u': 'print', 'hex': b.hex()}
        res = _judged(case)
        done += 1
        nt += bool(res.nontrivial)
        for lab in res.labels:
            ev.labels[lab] += 1
        ev.excluded += res.excluded
        ev.inconclusive += bool(res.inconclusive)
        for key, msg in res.fails:
            ev.fail(key, case, msg)
        if i < 4:
            ev.sample(case, nontrivial=res.nontrivial)
    ev.count(done, nontrivial=nt)


def gen_print_enum(shard, nshards, tier, seed):
    """Every exponent byte with boundary mantissas; neighbours of 10^k; int16 boundaries."""
    cases = []
    for n in (4, 8):
        mans = boundary_mantissas(n)
        for e in range(0, 256):
            for mi in range(len(mans)):
                if tier == 'quick' and (e + mi) % 4 and 2 < e < 253:
                    continue
                for sg in (0, 1):
                    b = pattern_from('expbound', n, e, mi, sg)
                    cases.append(b)
        for k in range(-39, 39):
            for j in range(7):
                for sg in (0, 1):
                    b = pattern_from('pow10', n, k + 39, j, sg)
                    if b is not None:
                        cases.append(b)
    for v in list(range(-300, 301)) + [32767, -32768, 32766, -32767, 9999, 10000, -10000, 12345]:
        cases.append(mbf.int16_bytes(v))
    if tier == 'thorough':
        for v in range(-32768, 32768):
            cases.append(mbf.int16_bytes(v))
    for b in cases[shard::nshards]:
        yield {'u': 'print', 'hex': bytes(b).hex()}


def strat_print_batch():
    big = st.integers(0, 2 ** 64 - 1)

    def one(kind, n, a, b, c):
        if n == 2:
            return mbf.int16_bytes(a % 65536 - 32768).hex()
        q = pattern_from(kind, n, a, b, c)
        return (q if q is not None else bytes(n)).hex()
    val = st.builds(one, st.sampled_from(PRINT_KINDS), st.sampled_from([4, 4, 4, 8, 8, 8, 2]),
                    big, big, st.integers(0, 65535))
    return st.builds(lambda vs: {'u': 'printb', 'vals': vs}, st.lists(val, min_size=1, max_size=8))


def run_parse_bulk(shard, nshards, tier, seed, ev):
    rng = random.Random(seed)
    count = 3000 if tier == 'quick' else 250000
    nt = 0
    done = 0
    seen = set()
    for i in range(count):
        text = build_text(random_params(rng))
        if text in seen:
            continue
        seen.add(text)
        d = dectext.read_literal(text)
        if d is None:
            continue
        case = {'u': 'repr', 'text': text}
        res = _judged(case)
        done += 1
        nt += bool(res.nontrivial)
        for lab in res.labels:
            ev.labels[lab] += 1
        ev.excluded += res.excluded
        ev.inconclusive += bool(res.inconclusive)
        for key, msg in res.fails:
            ev.fail(key, case, msg)
        if i < 4:
            ev.sample(case, nontrivial=res.nontrivial)
    ev.count(done, nontrivial=nt)


def strat_parse_routes():
    def build(p, var):
        return {'u': 'parse', 'text': build_text(p), 'var': var}
    return st.builds(build, strat_params(), st.sampled_from(['#', '#', '#', '!']))


def units(tier):
    return [
        Unit('print-str', 'bulk', shards={'quick': 8, 'thorough': 16}, run=run_print_bulk),
        Unit('print-enum', 'enum', shards={'quick': 4, 'thorough': 16}, gen=gen_print_enum),
        Unit('print-routes', 'hyp', shards={'quick': 8, 'thorough': 16},
             examples={'quick': 40, 'thorough': 4000},
             strategy=strat_print_batch),
        Unit('parse-repr', 'bulk', shards={'quick': 8, 'thorough': 16}, run=run_parse_bulk),
        Unit('parse-routes', 'hyp', shards=16, examples={'quick': 50, 'thorough': 10000},
             strategy=strat_parse_routes),
    ]


REGRESSIONS = [
    {'u': 'print', 'hex': '00002084'},
    {'u': 'printb', 'vals': ['00002084', '0100000000002084', 'ffff', '7f961898', 'ff237494']},
    {'u': 'parse', 'text': '1.1', 'var': '#'},
    {'u': 'parse', 'text': '12345678', 'var': '#'},
    {'u': 'parse', 'text': '1 2 3.5 E 1', 'var': '!'},
    {'u': 'parse', 'text': '0.00E-3', 'var': '#'},
    # fixed 840d7c81: zero mantissa with a positive net decimal exponent is stored as 2^-129 * 10^k
    {'u': 'repr', 'text': '0E5'},
    {'u': 'parse', 'text': '0E1', 'var': '#'},
    {'u': 'parse', 'text': '0D200', 'var': '#'},
    # fixed 840d7c81: double literal whose digits do not fit 56 bits is truncated first (up to 2.4 ulp)
    {'u': 'repr', 'text': '38.113003526267630000e30'},
    {'u': 'parse', 'text': '521469123537020.0000', 'var': '#'},
    # fixed 840d7c81: the same for a single literal whose digits do not fit 24 bits
    {'u': 'repr', 'text': '928.68220'},
    {'u': 'parse', 'text': '1677721.50000!', 'var': '!'},
    # fixed f381997f: a double that rounds up to 10^16 in the 16-digit mantissa is shown ten times too small
    {'u': 'print', 'hex': 'fd61acc5eb782dc3'},
    {'u': 'printb', 'vals': ['de4f8d976e120377', 'fd61acc5eb782dc3', 'aa24cb0bffeb2f5c']},
]

KILLS = [
    'numbers.py Single._lim_top -> just under 1E8 -> print.sigdigits + print.unit (print-str)',
    'numbers.py Single._lim_bot -> 9999999 -> print.int-exact + print.sigdigits + print.unit (print-str)',
    'numbers.py str_to_decimal: digits - zeros > 7 -> > 8 -> parse.type (parse-repr, token byte in parse-routes) + parse.double.ulp (VAL in parse-routes)',
    'numbers.py _normalise: drop the round-up -> parse.single.ulp + parse.double.ulp (parse-repr)',
    'numbers.py _scientific_notation: exponent off by one -> print.unit (print-enum)',
    "files.py WRITE: 'E-' -> 'E+' in the representation -> print.unit (print-routes, WRITE# only)",
    "lister.py number token: 'D+' -> 'D-' -> print.unit (print-routes, LIST only)",
    'interpreter.py READ: from_repr(word[:9]) -> parse.double.ulp + parse.single.ulp + parse.type (parse-routes, READ only)',
    'SURVIVED: removing either _apply_carry_den call in to_decimal - not a violation: worst print error drops from 0.75/0.63 to 0.55/0.50 units (the carries are a GW-compatibility quirk)',
    'SURVIVED: str_to_decimal zeros += 1 -> += 0 (trailing fraction zeros count as digits) - only changes the type where the statement is ambiguous (8+ digits through trailing zeros), both types accepted',
    "SURVIVED: _div_den 'work_man > rman' -> '>=' - error stays < 1 ulp",
    'fix 840d7c81 reverse-applied -> parse.zero-mantissa-posexp + parse.double.ulp.ge17digits + parse.single.ulp.ge8digits (generated cases of parse-repr)',
    'fix f381997f reverse-applied -> print.double.carry-to-pow10 (print-enum)',
]
