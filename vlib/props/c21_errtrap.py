"""
C21 - error trapping reports and resumes at the right place.

Block-tree programs as in C19 (loops, GOSUBs, multi-statement lines, inline IFs) with error sites:
ERROR n for defined and undefined codes and real faults (division by zero, integer overflow, bad
subscript, SQR(-1), type mismatch, Out of DATA, File not found, undefined line, plus the mismatch
errors and ON-selector errors of C19). A generated handler prints ERR and ERL to the trace file and
dispatches on a mode variable set before each site: RESUME (after repairing the cause), RESUME 0,
RESUME NEXT, RESUME n, ON ERROR GOTO 0, a second error inside the handler, END, or falling off the
end of the program (No RESUME). ON ERROR GOTO / ON ERROR GOTO 0 / stray RESUME statements appear in
the body; after a normal end the same error sites are executed from direct mode (ERL = 65535).
Oracle: vlib/refinterp.py statement-pointer model; trace file and error messages are compared.
"""
from hypothesis import strategies as st

from vlib.core import Result, Unit
from vlib import refinterp as R
from vlib import harness
from vlib.props import c19_flow as C19

ID = 'C21'
LEVEL = 'exploration'
TECHNIQUE = ("Hypothesis-generated block trees with error sites and a mode-dispatching handler; trace "
             "of ERR/ERL and tags plus final messages compared with an independent statement-pointer "
             "reference model (validated on recorded GW-BASIC outputs RESUME, RESUME2, IFRESUME, "
             "FOROVFL, FORNEXT4/6/7, WHILE)")
RULE = ("Random C19 block trees extended with error sites (ERROR n, n in 1..255 incl. undefined codes "
        "and 0/256; nine kinds of real faults, guarded ones repairable by the handler) at every "
        "statement position (first/middle/last of a line, inside inline IF clauses, loops, GOSUBs), "
        "per-site handler mode (RESUME, RESUME 0, RESUME NEXT, RESUME n, ON ERROR GOTO 0, error in "
        "handler, END, fall off the end), trap switched on/off in the body, stray RESUME, and up to "
        "two direct-mode lines after the run. Non-trivial: a trapped error whose statement is not "
        "the first of its line, or that occurs inside a live loop/GOSUB, or a handler that itself "
        "fails/does not resume. Distinct = distinct tree.")
ASSUMPTIONS = [
    "RESUME outside a handler while a trap is active: 'RESUME without error' may stop the program "
    "(this implementation, GW-BASIC) or be trapped; both are accepted, anything else fails",
    "float Division by zero without an active trap is a soft error in GW-BASIC (message, execution "
    "continues); the statement says 'stops': nothing is asserted after such an event",
    "ERR/ERL are only printed inside the handler (their values after RESUME are not in the statement)",
    "the line number reported with 'No RESUME' is not asserted",
    "RESUME NEXT after an error raised by an IF condition or while continuing a NEXT list after a "
    "zero-trip loop is not asserted (not generated)",
]

MAX_STEPS = 6000
N_ARMS = 7

# (text, code, repairable, soft)
FAULTS = {
    'div': ('QX=1/RP', 11, True, True),
    'ovf': ('QX%=32767+(1-RP)', 6, True, False),
    'sub': ('QX=QA(11-RP)', 9, True, False),
    'sqr': ('QX=SQR(RP-1)', 5, True, False),
    'tm': ('QX=1+""', 13, False, False),
    'data': ('READ QX', 4, False, False),
    'file': ('OPEN "I",2,"NOFILE"', 53, False, False),
    'line': ('GOTO 65000', 8, False, False),
    'div0': ('QX=7/0', 11, False, True),
    # faults raised inside a DEF FN body (functions defined by the prologue); ERR/ERL are those of
    # the calling statement, RESUME calls the function again
    'fnz': ('QX=FNZ', 5, True, False),
    'fnu': ('QX=FNU(3)', 11, True, True),
    'fnb': ('QX=FNB(2,0)', 9, True, False),
    'fnt': ('QX=FNT(1)', 13, False, False),
    'fnp': ('PRINT#1,FNU(5)', 11, True, True),
}
DEF_FNS = ['DEF FNZ=SQR(RP-1)', 'DEF FNU(X)=X/RP', 'DEF FNB(X,Y)=X+QA(Y+11-RP)', 'DEF FNT(X)=X+""']
# value of a successful call (RP=1)
FN_VALUE = {'fnz': 0, 'fnu': 3, 'fnb': 2, 'fnp': 5}


def fault_atoms(st_):
    """Atoms for one error site: HM=mode [, RP=0], the failing statement."""
    out = [{'k': 'let', 'var': 'HM', 'e': ['n', st_.get('hm', 0)]}]
    kind = st_['kind']
    if kind == 'error':
        out.append({'k': 'error', 'e': ['n', st_['code']]})
        return out
    text, code, rep, soft = FAULTS[kind]
    if rep:
        out.append({'k': 'let', 'var': 'RP', 'e': ['n', 0]})
    a = {'k': 'fault', 'text': text, 'code': code, 'ok': ['v', 'RP'] if rep else None, 'soft': soft}
    if kind in FN_VALUE and kind != 'fnp':
        a['sets'] = 'QX'
        a['val'] = ['n', FN_VALUE[kind]]
    out.append(a)
    if kind == 'fnp':
        # the PRINT itself writes the value when the call succeeds
        a['k'] = 'fnprint'
        a['prints'] = FN_VALUE[kind]
    if kind in FN_VALUE and st_.get('again'):
        # a later, valid call of the same function behaves normally
        k2 = 'fnu' if kind == 'fnp' else kind
        out.append({'k': 'let', 'var': 'RP', 'e': ['n', 1]})
        out.append({'k': 'fault', 'text': FAULTS[k2][0], 'code': FAULTS[k2][1], 'ok': ['v', 'RP'],
                    'soft': FAULTS[k2][3], 'sets': 'QX', 'val': ['n', FN_VALUE[k2]]})
        out.append({'k': 'pr', 'items': [['v', 'QX']]})
    return out


class Compiler21(R.Compiler):

    def __init__(self, case):
        R.Compiler.__init__(self, case)
        self.hlabel = self.label()
        self.reclabel = self.label()
        self.endlabel = self.label()
        self.rec_at = case.get('rec', 0) % (len(case['main']) + 1)

    def prologue(self):
        if self.case.get('trap', True):
            self.emit({'k': 'onerr', 'to': self.hlabel}, True)
            if self.case.get('trapnl'):
                self.newline()
        for i, d in enumerate(DEF_FNS):
            self.emit({'k': 'raw', 'text': d}, i % 2 == 0 or bool(self.case.get('trapnl')))
        self.newline()

    def block(self, blk, ctx):
        if blk is self.case['main']:
            # recovery point for RESUME n: before the rec_at-th top-level statement
            for i, st_ in enumerate(blk):
                if i == self.rec_at:
                    self.place(self.reclabel)
                    self.tag(ctx)
                R.Compiler.block(self, [st_], ctx)
            if self.rec_at >= len(blk):
                self.place(self.reclabel)
                self.tag(ctx)
            return
        R.Compiler.block(self, blk, ctx)

    def extra(self, st_, ctx, nl):
        t = st_['t']
        inl = ctx.inline
        if t == 'err':
            self.features.add('site:' + st_['kind'])
            self.features.add('mode:%d' % st_.get('hm', 0))
            for i, a in enumerate(fault_atoms(st_)):
                self.emit(a, nl and i == 0, inl)
        elif t == 'onerr':
            self.features.add('onerr-on' if st_['on'] else 'onerr-off')
            self.emit({'k': 'onerr', 'to': self.hlabel if st_['on'] else 0}, nl, inl)
        elif t == 'resume':
            if self.fatal():
                self.features.add('stray-resume')
                self.emit({'k': 'resume', 'mode': st_.get('mode', 'same')}, nl, inl)
            else:
                self.tag(ctx, nl)
        else:
            raise ValueError(st_)

    def epilogue(self):
        case = self.case
        hv = case.get('hv', 0)
        e = self.emit
        self.place(self.hlabel)
        e({'k': 'pr', 'items': [['v', 'ERR'], ['v', 'ERL']]})
        e({'k': 'let', 'var': 'EC', 'e': ['b', '+', ['v', 'EC'], ['n', 1]]}, bool(hv & 1))
        e({'k': 'if', 'c': ['b', '>', ['v', 'EC'], ['n', 10]], 'then': None, 'else_line': None,
           'else_at': None, 'kw': 'THEN'})
        e({'k': 'pr', 'items': [['n', -1]]}, False, True)
        e({'k': 'end'}, False, True)
        self.newline()
        arms = [self.label() for _ in range(N_ARMS)]
        e({'k': 'on', 'e': ['v', 'HM'], 'kind': 'goto', 'to': arms})
        e({'k': 'resume', 'mode': 'next'}, bool(hv & 2))
        # 1: repair and retry
        self.place(arms[0])
        e({'k': 'let', 'var': 'RP', 'e': ['n', 1]})
        e({'k': 'resume', 'mode': 'zero' if hv & 4 else 'same'}, bool(hv & 8))
        # 2: continue after the failing statement
        self.place(arms[1])
        self.tag(R._Ctx(0))
        e({'k': 'resume', 'mode': 'next'}, bool(hv & 16))
        # 3: continue at the recovery line
        self.place(arms[2])
        e({'k': 'resume', 'mode': self.reclabel})
        # 4: switch trapping off inside the handler: stops with the original error
        self.place(arms[3])
        e({'k': 'onerr', 'to': 0})
        self.tag(R._Ctx(0))
        # 5: a second error inside the handler
        self.place(arms[4])
        self.tag(R._Ctx(0))
        for a in fault_atoms({'kind': case.get('hfault', 'error'), 'code': case.get('hcode', 71),
                              'hm': 5})[1:]:
            e(a)
        self.tag(R._Ctx(0))
        e({'k': 'resume', 'mode': 'next'})
        # 6: END inside the handler
        self.place(arms[5])
        e({'k': 'end'})
        # 7: leave the handler code without RESUME and run off the end of the program
        self.place(arms[6])
        e({'k': 'goto', 'to': self.endlabel})
        self.place(self.endlabel)
        e({'k': 'rem'})


def direct_atoms(d):
    out = fault_atoms(d)
    for i in range(d.get('tags', 1)):
        out.append({'k': 'pr', 'items': [['n', 7000 + d.get('id', 0) * 10 + i]]})
    return out


def compare_errors(res, text, ref_errors, real_errors):
    """Untrapped messages, in order. Undefined codes print 'Unprintable error' (-1 from the
    harness parser)."""
    exp = []
    for code, line in ref_errors:
        exp.append((code if code in harness.ERROR_MESSAGES else -1, line))
    got = list(real_errors)
    if len(exp) != len(got):
        res.fail('final.error-count', '%s\nreference %r, real %r' % (text, exp, got))
        return
    for (ec, el), (gc, gl) in zip(exp, got):
        if ec != gc:
            res.fail('final.error-code', '%s\nreference %r, real %r' % (text, exp, got))
            return
        if ec == 19:
            continue
        if el != gl:
            res.fail('final.error-line', '%s\nreference %r, real %r' % (text, exp, got))
            return


def run_both(prog, directs, trappable20):
    m = R.Ref(prog, max_steps=MAX_STEPS, resume20_trappable=trappable20)
    ref = m.run()
    used = []
    if not (ref.final or ref.unspec or ref.budget) and m.resume_pos is None and not m.in_handler:
        for d in directs:
            m.direct = d
            m.res.final = None
            m.run(direct=True)
            used.append(d)
            if ref.final or ref.unspec or ref.budget:
                break
    return m, ref, used


def check_case(case):
    res = Result()
    try:
        prog = R.compile_tree(case, Compiler21)
    except RecursionError:
        res.inconclusive = True
        return res
    bad = R.check_links(prog)
    if bad:
        res.fail('harness.generator-links', bad + '\n' + '\n'.join(R.program_text(prog)))
        return res
    lines = R.program_text(prog)
    if any(len(ln) > 250 for ln in lines):
        res.inconclusive = True
        res.label('line-too-long')
        return res
    text = '\n'.join(lines)
    directs = [direct_atoms(d) for d in case.get('direct', [])]
    m, ref, used = run_both(prog, directs, False)
    if ref.budget:
        res.inconclusive = True
        res.label('ref-budget')
        return res
    if used:
        text += '\n' + '\n'.join(R.line_text(None, d) for d in used)
    real = R.run_real(prog, directs=used, budget=ref.stats['steps'] * 4 + 400)
    judge(res, text, ref, real)
    if res.fails and 'resume20-with-trap' in ref.flags and real.kind == 'ok':
        # RESUME without error raised while a trap is active: also accept a trapped error 20
        m2, ref2, used2 = run_both(prog, directs, True)
        if used2 == used and not ref2.budget:
            res2 = Result()
            judge(res2, text, ref2, real)
            if not res2.fails:
                res.fails = []
                res.label('resume20-trapped-variant-accepted')
    s = ref.stats
    fl = ref.flags
    res.nt(not ref.unspec and s['trapped'] >= 1 and (
        'trap-not-first' in fl or 'trap-in-nest' in fl or 'error-in-handler' in fl
        or 'no-resume' in fl or 'onerr0-in-handler' in fl))
    for f in prog['features']:
        if f.startswith('site:') or f.startswith('mode:') or f.startswith('onerr') or \
                f.startswith('stray'):
            res.label('has:' + f)
    for f in sorted(fl):
        res.label('ran:' + f)
    res.label('trapped:%s' % ('0' if not s['trapped'] else '1' if s['trapped'] == 1 else
                              '2-4' if s['trapped'] <= 4 else '5+'))
    res.label('resumed:%s' % ('0' if not s['resumed'] else '1' if s['resumed'] == 1 else '2+'))
    if used:
        res.label('direct-lines:%d' % len(used))
    for code, _l in ref.errors:
        res.label('stop:%d' % code)
    if not ref.errors:
        res.label('stop:none')
    return res


def judge(res, text, ref, real):
    if real.kind == 'store-error':
        res.fail('harness.store-error', real.detail)
        return
    if real.kind == 'escaped':
        res.fail('escaped.%s' % real.key, '%s\n%s' % (text, real.detail))
        return
    exp = R.trace_tokens(ref.trace)
    got = real.trace
    if real.kind in ('budget', 'exit'):
        res.inconclusive = True
        res.label('real-' + real.kind)
        n = min(len(exp), len(got))
        if not ref.unspec and (got[:n] != exp[:n] or len(got) > len(exp)):
            i = C19._first_diff(exp, got)
            res.fail('trace', '%s\nreal run exceeded %s; reference: %s\nreal:      %s' % (
                text, real.kind, C19._flat_str(exp[max(0, i - 6):]),
                C19._flat_str(got[max(0, i - 6):])))
        return
    if ref.unspec:
        res.label('unspecified:' + ref.unspec.split(':')[0][:40])
        if got[:len(exp)] != exp:
            i = C19._first_diff(exp, got)
            res.fail('trace.prefix-before-unspecified', '%s\nreference (then %s): %s\nreal: %s' % (
                text, ref.unspec, C19._flat_str(exp[max(0, i - 6):]),
                C19._flat_str(got[max(0, i - 6):])))
        return
    if got != exp:
        i = C19._first_diff(exp, got)
        key = 'trace'
        res.fail(key, '%s\nreference: %s\nreal:      %s\nfirst difference at item %d (ERR ERL pairs '
                 'follow each trap); real messages %r, reference %r' % (
                     text, C19._flat_str(exp[max(0, i - 6):]), C19._flat_str(got[max(0, i - 6):]),
                     i, real.errors, ref.errors))
        return
    compare_errors(res, text, ref.errors, real.errors)


# --------------------------------------------------------------------------------------------
# generators

ERROR_CODES = ([1, 2, 3, 4, 5, 6, 7, 8, 9, 10, 11, 12, 13, 14, 15, 16, 17, 18, 19, 20, 22, 23, 24, 25,
                26, 27, 29, 30, 50, 51, 52, 53, 54, 55, 57, 58, 61, 62, 63, 64, 66, 67, 68, 69, 70, 71,
                72, 73, 74, 75, 76, 77] + [21, 28, 31, 49, 56, 78, 100, 200, 254, 255] + [0, 256])


def site():
    kinds = st.sampled_from(['error'] * 6 + ['div', 'div', 'ovf', 'sub', 'sqr', 'tm', 'data',
                                             'file', 'line', 'div0'] +
                            ['fnz', 'fnu', 'fnu', 'fnb', 'fnt', 'fnp'])
    return st.builds(lambda kind, code, hm, nl, again: {'t': 'err', 'kind': kind, 'code': code,
                                                         'hm': hm, 'nl': nl, 'again': again},
                     kinds, st.sampled_from(ERROR_CODES),
                     st.sampled_from([0, 1, 1, 1, 2, 2, 2, 2, 3, 3, 4, 5, 6, 7, 8]), C19._nl(),
                     st.booleans())


def extras():
    onerr = st.builds(lambda on: {'t': 'onerr', 'on': on}, st.sampled_from([True, True, False]))
    resume = st.builds(lambda m: {'t': 'resume', 'mode': m}, st.sampled_from(['same', 'next', 'zero']))
    return [(9, site()), (1, onerr), (1, resume)]


def strat_prog():
    ex = extras()

    def build(main, subs, trap, rec, hv, hfault, hcode, direct, step, first, maxfatal, trapnl):
        for i, d in enumerate(direct):
            d['id'] = i
        return {'main': main, 'subs': subs, 'trap': trap, 'rec': rec, 'hv': hv, 'hfault': hfault,
                'hcode': hcode, 'direct': direct, 'numstep': step, 'numfirst': first,
                'maxfatal': maxfatal, 'trapnl': trapnl}
    direct = st.builds(lambda kind, code, hm, tags: {'kind': kind, 'code': code, 'hm': hm,
                                                      'tags': tags},
                       st.sampled_from(['error', 'error', 'div', 'ovf', 'sqr', 'tm', 'sub', 'fnu',
                                        'fnz', 'fnb']),
                       st.sampled_from(ERROR_CODES), st.sampled_from([0, 1, 2, 2, 3, 5, 6]),
                       st.integers(0, 2))
    return st.builds(build,
                     st.lists(C19.stmt(2, False, ex), min_size=2, max_size=5),
                     st.lists(C19.block(1, True, max_size=3, extra=ex), min_size=1, max_size=3),
                     st.sampled_from([True] * 9 + [False]), st.integers(0, 5), st.integers(0, 31),
                     st.sampled_from(['error', 'error', 'div0', 'tm', 'sub']),
                     st.sampled_from(ERROR_CODES),
                     st.lists(direct, min_size=0, max_size=2),
                     st.sampled_from([10, 10, 1, 100]), st.sampled_from([10, 10, 3, 1000]),
                     st.sampled_from([1, 2, 3]), st.booleans())


def units(tier):
    return [
        Unit('programs', 'hyp', shards=16, examples={'quick': 300, 'thorough': 8000},
             strategy=strat_prog, per_case_timeout=120.0),
    ]


REGRESSIONS = [
    # RESUME / RESUME NEXT / RESUME n from the middle of a line inside FOR + GOSUB, then direct mode
    {'main': [{'t': 'tag'},
              {'t': 'for', 'ty': '%', 'a': 1, 'b': 2, 's': None, 'named': False, 'body': [
                  {'t': 'tag'}, {'t': 'err', 'kind': 'div', 'code': 0, 'hm': 1}, {'t': 'tag'},
                  {'t': 'gosub', 'k': 0}, {'t': 'tag'}]},
              {'t': 'err', 'kind': 'error', 'code': 200, 'hm': 3}, {'t': 'tag'}],
     'subs': [[{'t': 'tag'}, {'t': 'err', 'kind': 'sub', 'code': 0, 'hm': 2}, {'t': 'tag'},
               {'t': 'if', 'c': {'k': 'const', 'v': 1}, 'form': 'inline', 'else': [{'t': 'tag'}],
                'then': [{'t': 'err', 'kind': 'error', 'code': 5, 'hm': 2}, {'t': 'tag'}]}]],
     'trap': True, 'rec': 3, 'hv': 5, 'direct': [
         {'kind': 'error', 'code': 11, 'hm': 2, 'tags': 2, 'id': 0},
         {'kind': 'sqr', 'code': 0, 'hm': 1, 'tags': 1, 'id': 1}], 'maxfatal': 1},
    # error inside the handler; ON ERROR GOTO 0 inside the handler; no RESUME; untrapped
    {'main': [{'t': 'tag'}, {'t': 'err', 'kind': 'error', 'code': 6, 'hm': 5}, {'t': 'tag'}],
     'subs': [[{'t': 'tag'}]], 'trap': True, 'rec': 0, 'hv': 0, 'hfault': 'tm', 'direct': []},
    {'main': [{'t': 'tag'}, {'t': 'tag'}, {'t': 'err', 'kind': 'ovf', 'code': 0, 'hm': 4},
              {'t': 'tag'}], 'subs': [[{'t': 'tag'}]], 'trap': True, 'rec': 0, 'hv': 0,
     'direct': []},
    {'main': [{'t': 'tag'}, {'t': 'err', 'kind': 'data', 'code': 0, 'hm': 7}, {'t': 'tag'}],
     'subs': [[{'t': 'tag'}]], 'trap': True, 'rec': 0, 'hv': 0, 'direct': []},
    {'main': [{'t': 'tag'}, {'t': 'tag'}, {'t': 'err', 'kind': 'file', 'code': 0, 'hm': 2},
              {'t': 'tag'}], 'subs': [[{'t': 'tag'}]], 'trap': False, 'rec': 0, 'hv': 0,
     'direct': []},
    # errors raised inside DEF FN bodies: RESUME calls the function again, later calls are normal
    {'main': [{'t': 'tag'},
              {'t': 'for', 'ty': '%', 'a': 1, 'b': 2, 's': None, 'named': False, 'body': [
                  {'t': 'err', 'kind': 'fnu', 'code': 0, 'hm': 1, 'again': True}, {'t': 'tag'},
                  {'t': 'gosub', 'k': 0}]},
              {'t': 'err', 'kind': 'fnp', 'code': 0, 'hm': 2, 'again': True}, {'t': 'tag'}],
     'subs': [[{'t': 'err', 'kind': 'fnz', 'code': 0, 'hm': 2, 'again': True}, {'t': 'tag'},
               {'t': 'err', 'kind': 'fnb', 'code': 0, 'hm': 1, 'again': False},
               {'t': 'err', 'kind': 'fnt', 'code': 0, 'hm': 2, 'again': False}]],
     'trap': True, 'rec': 0, 'hv': 0,
     'direct': [{'kind': 'fnu', 'code': 0, 'hm': 1, 'tags': 1, 'id': 0}]},
    {'main': [{'t': 'tag'}, {'t': 'resume', 'mode': 'next'}, {'t': 'tag'}],
     'subs': [[{'t': 'tag'}]], 'trap': True, 'rec': 0, 'hv': 0, 'direct': [], 'maxfatal': 1},
]

KILLS = [
    "interpreter.py trap_error: error_resume = start of the *line* instead of current_statement -> trace",
    "interpreter.py resume_: RESUME NEXT skip_to(..., break_on_first_char=True) -> trace",
    "interpreter.py resume_: error_handle_mode not reset on RESUME -> trace (second error is not trapped)",
    "interpreter.py trap_error: trap again while already handling -> trace",
    "interpreter.py on_error_goto_: ON ERROR GOTO 0 inside the handler does not re-raise -> trace",
    "interpreter.py resume_: no 'RESUME without error' check -> escaped.TypeError@interpreter.py:resume_",
    "interpreter.py erl_: direct-mode ERL 0 instead of 65535 -> trace",
    "interpreter.py parse: no 'No RESUME' at the end of the program -> final.error-count",
    "interpreter.py resume_: plain RESUME skips the statement -> trace",
    "implementation.py end_: END in the handler keeps error_resume -> trace",
    "interpreter.py error_: ERROR 0 accepted -> trace",
    "interpreter.py resume_: RESUME n leaves error_handle_mode set -> trace",
    "userfunctions.py UserFunction.evaluate: recursion guard cleared only after a successful body (not in finally) -> trace (error sites inside DEF FN bodies, second call gives bogus ERR 7)",
    "SURVIVED (equivalent): trap_error e.pos = current_statement instead of tell()-1 (same line number)",
]
