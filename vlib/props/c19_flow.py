"""
C19 - structured control flow follows its reference semantics.

Programs are generated as block trees (FOR/NEXT with integer and single counters, WHILE/WEND,
counter-guarded backward GOTO loops, GOSUB/RETURN over a call DAG, IF/THEN/ELSE in statement and
line-number forms, ON n GOTO/GOSUB, forward GOTOs, early exits out of loops, early RETURNs, and the
deliberate mismatches NEXT/WEND/RETURN without their opener, FOR without NEXT, WHILE without WEND),
compiled to a flat numbered program (vlib/refinterp.py), rendered to BASIC text, stored and RUN in a
fresh session. Every basic block writes a tag (and loops their counter) to a sequential file; the
file and the final error message are compared with the independent reference interpreter.
A second unit replays the control-flow scripts of /repo/tests/basic whose statements fall in the
modelled subset and compares the reference with the *recorded GW-BASIC output* (validates the
oracle) and with the real interpreter.
"""
import os
import glob

from hypothesis import strategies as st

from vlib.core import Result, Unit
from vlib import refinterp as R

ID = 'C19'
LEVEL = 'exploration'
TECHNIQUE = ("Hypothesis-generated block trees compiled to BASIC text; trace file and final error "
             "compared with an independent AST/statement-pointer reference interpreter; reference "
             "validated against recorded GW-BASIC outputs")
RULE = ("Random block trees (depth <= 4 plus a GOSUB call DAG of up to 8 routines): FOR with % and ! "
        "counters, steps of both signs, 0..4 trips, bounds at both int16 ends (Overflow at NEXT), "
        "zero-trip loops, NEXT with and without variable and NEXT J,I lists, counters modified in "
        "the body, stop bound held in a variable changed in the body; WHILE/WEND; backward GOTO "
        "under a counter; forward GOTO; IF/THEN/ELSE inline (nested, dangling ELSE) and in four "
        "line-number forms; ON n GOTO/GOSUB with n in -1..len+2, 255, 256, fractions; early exits "
        "out of 1..3 loops; early RETURN out of loops; stray NEXT/WEND/RETURN, FOR without NEXT, "
        "WHILE without WEND; 1..7 statements per line. Non-trivial: the run reaches a dynamic "
        "nesting depth >= 2 (live FOR+WHILE+GOSUB records) and takes at least one backward jump or "
        "early exit. Distinct = distinct tree.")
ASSUMPTIONS = [
    "counter value after a zero-trip loop, after a loop whose (stop-start) is not a multiple of "
    "step, and after an Overflow is not asserted (never printed by generated programs)",
    "FOR ... STEP 0 is generated and labelled but only the trace up to the FOR and 'no internal "
    "error' are required (statement and manual leave it open)",
    "a zero-trip integer loop whose start+step leaves -32768..32767 may raise Overflow or continue "
    "(this implementation increments the counter once; the statement does not fix the counter)",
    "jumps into loop bodies are not generated; loop records are matched by the position of their "
    "closing NEXT/WEND as GW-BASIC does (recorded outputs FORNEXT7, jump_out_of_WHILE_loop)",
    "single counters use multiples of 0.25 below 2^11 so every sum is exact in MBF single",
]

MAX_STEPS = 6000

# --------------------------------------------------------------------------------------------
# oracle


def _flat_str(trace, n=40):
    return ' '.join(str(x) for x in trace[:n]) + (' ...' if len(trace) > n else '')


def _first_diff(a, b):
    for i, (x, y) in enumerate(zip(a, b)):
        if x != y:
            return i
    return min(len(a), len(b))


def compare(res, prog, ref, real, label=''):
    """Judge the real run against the reference run. Shared with C21."""
    text = '\n'.join(R.program_text(prog))
    if real.kind == 'store-error':
        res.fail('harness.store-error', real.detail)
        return
    if real.kind == 'escaped':
        res.fail('escaped.%s' % real.key, '%s\n%s' % (text, real.detail))
        return
    if real.kind in ('budget', 'exit'):
        res.inconclusive = True
        res.label('real-' + real.kind)
        exp = R.trace_tokens(ref.trace)
        n = min(len(exp), len(real.trace))
        if not ref.unspec and (real.trace[:n] != exp[:n] or len(real.trace) > len(exp)):
            i = _first_diff(exp, real.trace)
            res.fail('trace', '%s\nreal run exceeded %s; reference: %s\nreal:      %s\nfirst '
                     'difference at item %d' % (text, real.kind, _flat_str(exp[max(0, i - 5):]),
                                                _flat_str(real.trace[max(0, i - 5):]), i))
        return
    if ref.budget:
        res.inconclusive = True
        res.label('ref-budget')
        return
    exp = R.trace_tokens(ref.trace)
    got = real.trace
    if ref.unspec:
        res.label('unspecified:' + ref.unspec.split(':')[0][:40])
        # everything before the unspecified event is still fixed
        if got[:len(exp)] != exp:
            i = _first_diff(exp, got)
            res.fail('trace.prefix-before-unspecified',
                     '%s\nreference (then %s): %s\nreal: %s\nfirst difference at item %d' % (
                         text, ref.unspec, _flat_str(exp[max(0, i - 5):]),
                         _flat_str(got[max(0, i - 5):]), i))
        return
    # (fixed 7a22afc6) own bucket: the run stops with Syntax error on the line of a NEXT list that a
    # zero-trip FOR entered in the middle, after a correct prefix of the trace
    zt_list = bool(real.errors) and real.errors[0][0] == 2 and \
        real.errors[0][1] in ref.ztlist_lines and got == exp[:len(got)]
    if got != exp:
        i = _first_diff(exp, got)
        key = 'trace'
        if zt_list:
            key = 'for.zerotrip-next-list.syntax-error'
        res.fail(key, '%s\nreference: %s\nreal:      %s\nfirst difference at item %d; real errors %r, '
                 'reference final %r' % (text, _flat_str(exp[max(0, i - 5):]),
                                         _flat_str(got[max(0, i - 5):]), i, real.errors, ref.final))
        return
    # final state
    if ref.final is None:
        if real.errors:
            key = 'final.spurious-error'
            if zt_list:
                key = 'for.zerotrip-next-list.syntax-error'
            res.fail(key, '%s\nreference ends normally, real reports %r' % (text, real.errors))
    else:
        code, line = ref.final
        if not real.errors:
            res.fail('final.missing-error', '%s\nreference stops with %r, real reports nothing' % (
                text, ref.final))
        else:
            rc, rl = real.errors[0]
            if rc != code:
                res.fail('final.error-code', '%s\nreference %r, real %r' % (text, ref.final,
                                                                          real.errors))
            elif line is not None and rl != line:
                res.fail('final.error-line', '%s\nreference %r, real %r' % (text, ref.final,
                                                                          real.errors))
            if len(real.errors) > 1:
                res.fail('final.extra-errors', '%s\nreal %r' % (text, real.errors))


def check_tree(case, res):
    try:
        prog = R.compile_tree(case)
    except RecursionError:
        res.inconclusive = True
        return res
    bad = R.check_links(prog)
    if bad:
        res.fail('harness.generator-links', bad + '\n' + '\n'.join(R.program_text(prog)))
        return res
    for ln in R.program_text(prog):
        if len(ln) > 250:
            res.inconclusive = True
            res.label('line-too-long')
            return res
    res.excluded += prog['excluded']
    ref = R.run_ref(prog, max_steps=MAX_STEPS)
    if ref.budget:
        res.inconclusive = True
        res.label('ref-budget')
        return res
    # the real interpreter polls events once per statement: a run that needs more than a few times
    # the reference's statement count has diverged (judged on the trace) or loops (inconclusive)
    real = R.run_real(prog, budget=ref.stats['steps'] * 4 + 300)
    compare(res, prog, ref, real)
    s = ref.stats
    res.nt(s['maxdepth'] >= 2 and (s['back'] >= 1 or s['exits'] >= 1) and not ref.unspec)
    for f in prog['features']:
        res.label('has:' + f)
    for f in sorted(ref.flags):
        res.label('ran:' + f)
    res.label('depth:%d' % min(s['maxdepth'], 9))
    res.label('gosub-depth:%d' % min(s['maxgosub'], 9))
    if s['exits']:
        res.label('ran:early-exit')
    if s['zerotrip']:
        res.label('ran:zero-trip')
    if s['on_taken']:
        res.label('ran:on-taken')
    if s['on_fall']:
        res.label('ran:on-fallthrough')
    res.label('final:%s' % ('none' if ref.final is None else ref.final[0]))
    n = s['steps']
    res.label('steps:%s' % ('<30' if n < 30 else '<100' if n < 100 else '<500' if n < 500
                            else '<2000' if n < 2000 else '>=2000'))
    return res


# --------------------------------------------------------------------------------------------
# recorded corpus

CORPUS_ROOT = os.path.join(os.environ.get('VERIF_REPO', '/repo'), 'tests', 'basic')
CORPUS = [
    'gwbasic/FOR_NEXT_nested_comma', 'gwbasic/jump_out_of_WHILE_loop', 'unsorted/EMPTYFOR',
    'unsorted/FOROVFL', 'unsorted/FORNEXT2', 'unsorted/FORNEXT3', 'unsorted/FORNEXT4',
    'unsorted/FORNEXT5', 'unsorted/FORNEXT6', 'unsorted/FORNEXT7', 'unsorted/FORNEXT8',
    'unsorted/TWOFOR', 'unsorted/FORWHILE', 'unsorted/FORSTEP%', 'unsorted/FORChangingSTEP',
    'unsorted/FORChangingTO', 'unsorted/WHILE', 'unsorted/WHILE3', 'unsorted/RESUME',
    'unsorted/RESUME2', 'unsorted/IFRESUME', 'unsorted/FORNEXT',
]


def load_corpus(name):
    d = os.path.join(CORPUS_ROOT, name)
    bas = sorted(glob.glob(os.path.join(d, '*.BAS')))
    models = sorted(f for f in glob.glob(os.path.join(d, 'model', '*'))
                    if os.path.basename(f).upper().startswith('OUTPUT'))
    if not bas or not models:
        return None, None
    with open(bas[0], 'rb') as f:
        text = f.read().decode('latin-1')
    with open(models[0], 'rb') as f:
        model = f.read()
    return text, model


def check_corpus(case, res):
    text, model = load_corpus(case['name'])
    if text is None:
        res.inconclusive = True
        res.label('corpus-missing')
        return res
    try:
        prog = R.parse_basic(text)
    except R.ParseSkip as e:
        res.fail('harness.corpus-parse', '%s: %s' % (case['name'], e))
        return res
    ref = R.run_ref(prog, max_steps=100000)
    exp = R.trace_tokens(ref.trace)
    rec = R.parse_trace(model)
    res.nt(True)
    res.label('corpus')
    # 1. the reference reproduces what GW-BASIC recorded (up to where it declares 'unspecified')
    if ref.unspec:
        res.label('corpus-unspecified-tail')
        if rec[:len(exp)] != exp:
            res.fail('oracle.reference-vs-gwbasic', '%s: reference %s, recorded %s' % (
                case['name'], _flat_str(exp), _flat_str(rec)))
    elif rec != exp:
        i = _first_diff(exp, rec)
        res.fail('oracle.reference-vs-gwbasic', '%s: item %d: reference %s, recorded %s' % (
            case['name'], i, _flat_str(exp[max(0, i - 5):]), _flat_str(rec[max(0, i - 5):])))
    # 2. the real interpreter on the re-rendered program
    real = R.run_real(prog, budget=400000, add_open=False)
    if real.kind == 'store-error':
        res.fail('harness.store-error', real.detail)
    elif real.kind == 'escaped':
        res.fail('escaped.%s' % real.key, real.detail)
    elif real.kind != 'ok':
        res.inconclusive = True
    elif ref.unspec:
        if real.trace[:len(exp)] != exp:
            res.fail('corpus.trace', '%s: reference %s, real %s' % (
                case['name'], _flat_str(exp), _flat_str(real.trace)))
    elif real.trace != exp:
        i = _first_diff(exp, real.trace)
        res.fail('corpus.trace', '%s: item %d: reference %s, real %s' % (
            case['name'], i, _flat_str(exp[max(0, i - 5):]), _flat_str(real.trace[max(0, i - 5):])))
    return res


def check_case(case):
    res = Result()
    if case.get('u') == 'corpus':
        return check_corpus(case, res)
    return check_tree(case, res)


# --------------------------------------------------------------------------------------------
# generators

INT_STEPS = [1, 1, 1, 2, 3, 7, 100, 255, 256, 1000, 16384, 32767]
SNG_STEPS = [0.25, 0.5, 1, 1, 1.5, 2, 2.75, 100]


def mk_for(ty, si, neg, trips, region, offs, slack, a0, zero_step):
    """Explicit FOR parameters from small integers (keeps the case readable and shrinkable)."""
    if ty == '%':
        mag = INT_STEPS[si % len(INT_STEPS)]
        s = -mag if neg else mag
        if neg and mag == 32767 and offs == 3:
            s = -32768
        if trips == 0:
            a = a0
            b = a - (1 + offs) * (1 if s > 0 else -1)
        else:
            n = trips
            if region in ('edge', 'edge-ovf'):
                room = (offs % abs(s)) if region == 'edge-ovf' else min(abs(s) + offs, 65535)
                last = (32767 - room) if s > 0 else (-32768 + room)
                last = max(-32768, min(32767, last))
                a = last - s * (n - 1)
                while not -32768 <= a <= 32767:
                    n -= 1
                    a = last - s * (n - 1)
            elif region == 'start-edge':
                a = (-32768 + offs) if s > 0 else (32767 - offs)
                while not -32768 <= a + s * (n - 1) <= 32767:
                    n -= 1
                last = a + s * (n - 1)
            else:
                a = a0
                while not -32768 <= a + s * (n - 1) <= 32767:
                    n -= 1
                last = a + s * (n - 1)
            sl = slack % abs(s)
            b = last + (sl if s > 0 else -sl)
            b = max(-32768, min(32767, b))
        a = max(-32768, min(32767, a))
        b = max(-32768, min(32767, b))
    else:
        mag = SNG_STEPS[si % len(SNG_STEPS)]
        s = -mag if neg else mag
        a = a0 * 0.25
        if trips == 0:
            b = a - (1 + offs) * 0.25 * (1 if s > 0 else -1)
        else:
            last = a + s * (trips - 1)
            sl = (slack % int(mag * 4)) * 0.25
            b = last + (sl if s > 0 else -sl)
    if zero_step:
        s = 0
    out_s = s
    if s == 1 and slack % 2 == 0:
        out_s = None        # default step
    return a, b, out_s


def _nl():
    return st.sampled_from([False, False, True])


def leaf(in_sub, depth_left, extra=None):
    tag = st.builds(lambda nl: {'t': 'tag', 'nl': nl}, _nl())
    pv = st.builds(lambda nl, up: {'t': 'pv', 'up': up, 'nl': nl}, _nl(), st.integers(0, 2))
    gosub = st.builds(lambda nl, k: {'t': 'gosub', 'k': k, 'nl': nl}, _nl(), st.integers(0, 7))
    bump = st.builds(lambda d, up: {'t': 'bump', 'd': d, 'up': up},
                     st.sampled_from([1, -1, 2, 1]), st.integers(0, 1))
    skip = st.builds(lambda n, nl: {'t': 'skip', 'n': n, 'nl': nl}, st.integers(0, 3), _nl())
    ongosub = st.builds(lambda sel, subs, nl: {'t': 'on', 'kind': 'gosub', 'sel': sel,
                                                'subs': subs, 'nl': nl},
                        selector(3), st.lists(st.integers(0, 7), min_size=1, max_size=3), _nl())
    rare = st.sampled_from([
        {'t': 'return'}, {'t': 'return'}, {'t': 'end'}, {'t': 'snext'}, {'t': 'snext', 'var': 'F00'},
        {'t': 'swend'}, {'t': 'fornonext'}, {'t': 'whilenowend'}, {'t': 'whilenowend', 'v': 0},
    ])
    opts = [(20, tag), (8, pv), (8, gosub), (2, bump), (4, skip), (4, ongosub), (2, rare)]
    if in_sub:
        opts.append((2, st.just({'t': 'return'})))
    if extra:
        opts.extend(extra)
    return _weighted(opts)


def _weighted(opts):
    pool = []
    for w, s in opts:
        pool.extend([s] * w)
    return st.sampled_from(list(range(len(pool)))).flatmap(lambda i: pool[i])


def condition():
    const = st.builds(lambda v: {'k': 'const', 'v': v}, st.sampled_from([0, 1, -1, 0, 2.5, 32767]))
    ctr = st.builds(lambda up, op, c: {'k': 'ctr', 'up': up, 'op': op, 'c': c},
                    st.integers(0, 2), st.sampled_from(['=', '<>', '<', '>', '<=', '>=']),
                    st.sampled_from([0, 1, 1, 2, 2, 3, -1, 1.5]))
    return st.one_of(const, ctr, ctr)


def selector(narms):
    const = st.builds(lambda v: {'k': 'const', 'v': v},
                      st.sampled_from([0, 1, 2, 3, 4, 5] * 5 + [1.25, 2.75, 0.25, -0.25] * 2 +
                                      [-1, 255, 256, 256, 255.25, 32767, -32768, -0.75,
                                       255.75]))
    ctr = st.builds(lambda up, c: {'k': 'ctr', 'up': up, 'c': c}, st.integers(0, 2),
                    st.sampled_from([0, 0, 0, 1, 1]))
    return st.one_of(const, ctr, ctr)


def stmt(depth_left, in_sub, extra=None):
    lf = leaf(in_sub, depth_left, extra)
    if depth_left <= 0:
        return lf
    inner = block(depth_left - 1, in_sub, extra=extra)
    small = block(depth_left - 1, in_sub, max_size=2, extra=extra)
    trips_hi = 3 if depth_left >= 2 else 2

    def build_for(ty, si, neg, trips, region, offs, slack, a0, zs, named, comb, pa, bv, body,
                  nl, nnl, special):
        a, b, s = mk_for(ty, si, neg, trips, region, offs, slack, a0, zs)
        d = {'t': 'for', 'ty': ty, 'a': a, 'b': b, 's': s, 'named': named, 'body': body,
             'nl': nl, 'nnl': nnl}
        if special in ('bref', 'bref1'):
            d['bref'] = offs
            d['boff'] = 1 if special == 'bref1' else 0
            if region == 'mid' and ty == '%':
                d['a'] = a0 % 3
        elif special == 'bfrac':
            d['bfrac'] = 1 if offs % 2 else -1
        elif special is not None:
            d[special] = True
        if comb:
            d['comb'] = True
        if pa:
            d['pa'] = True
        if bv:
            d['bv'] = True
        return d
    for_ = st.builds(build_for, st.sampled_from(['%', '%', '!']), st.integers(0, 11),
                     st.booleans(),
                     st.sampled_from([0] + list(range(1, trips_hi + 1)) * (4 if depth_left >= 3 else 2)),
                     st.sampled_from(['mid'] * 19 + ['edge', 'edge', 'edge-ovf', 'start-edge', 'start-edge']),
                     st.integers(0, 3),
                     st.integers(0, 7), st.integers(-20, 20),
                     st.sampled_from([False] * 120 + [True]), st.booleans(), st.booleans(),
                     st.booleans(), st.sampled_from([False] * 11 + [True]), inner, _nl(), _nl(),
                     st.sampled_from([None] * 24 + ['bref'] * 3 + ['bref1', 'bfrac', 'bfrac', 'renext',
                                                                   'wrongnext']))
    # NEXT lists (NEXT K,J,I) with zero-trip loops at any level of the list
    def build_list(levels, leaves, nl):
        node = None
        for (ty, si, neg, trips, a0, slack, named), lv in zip(levels, leaves):
            a, b, s = mk_for(ty, si % 3, neg, trips, 'mid', 0, slack, a0, False)
            body = list(lv)
            if node is not None:
                body.append(node)
            node = {'t': 'for', 'ty': ty, 'a': a, 'b': b, 's': s, 'named': True, 'body': body,
                    'comb': True, 'nl': nl}
        return node
    level = st.tuples(st.sampled_from(['%', '%', '!']), st.integers(0, 2), st.booleans(),
                      st.sampled_from([0, 0, 1, 2, 2, 3]), st.integers(-3, 3), st.integers(0, 3),
                      st.booleans())
    nextlist = st.integers(2, 3).flatmap(lambda n: st.builds(
        build_list, st.lists(level, min_size=n, max_size=n),
        st.lists(st.lists(lf, min_size=0, max_size=2), min_size=n, max_size=n), _nl()))
    while_ = st.builds(lambda n, body, nl, wnl, nnl, rw: {'t': 'while', 'n': n, 'body': body,
                                                          'nl': nl, 'wnl': wnl, 'nnl': nnl,
                                                          'rewend': rw},
                       st.sampled_from([0, 1, 1, 2, 2, 3, 3]), inner, _nl(), _nl(), _nl(),
                       st.sampled_from([False] * 29 + [True]))
    back = st.builds(lambda n, body, nl, nnl, kw: {'t': 'back', 'n': n, 'body': body, 'nl': nl,
                                                   'nnl': nnl, 'kw': kw},
                     st.integers(1, 3), inner, _nl(), _nl(), st.sampled_from(['THEN', 'GOTO']))
    exit_ = st.builds(lambda up: [{'t': 'exit', 'up': up}], st.integers(0, 2))
    if_ = st.builds(lambda c, then, els, form, variant, kw, nl:
                    {'t': 'if', 'c': c, 'then': then, 'else': els, 'form': form,
                     'variant': variant, 'kw': kw, 'nl': nl},
                    condition(), st.one_of(small, small, exit_), st.one_of(st.none(), small),
                    st.sampled_from(['inline', 'inline', 'lines']), st.integers(0, 3),
                    st.sampled_from(['THEN', 'THEN', 'GOTO']), _nl())
    leafs = st.lists(lf, min_size=1, max_size=2)
    inner_if = st.builds(lambda c, then, els: {'t': 'if', 'c': c, 'then': then, 'else': els,
                                               'form': 'inline'},
                         condition(), leafs, st.one_of(st.none(), leafs))
    nested_if = st.builds(lambda c, pre, inner_, els, nl:
                          {'t': 'if', 'c': c, 'then': pre + [inner_], 'else': els,
                           'form': 'inline', 'nl': nl},
                          condition(), st.lists(lf, min_size=0, max_size=1), inner_if,
                          st.one_of(st.none(), leafs, st.builds(lambda x: [x], inner_if)), _nl())
    ongoto = st.builds(lambda sel, arms, fall, nl: {'t': 'on', 'kind': 'goto', 'sel': sel,
                                                    'arms': arms, 'fall': fall, 'nl': nl},
                       selector(3), st.lists(small, min_size=1, max_size=3), st.booleans(), _nl())
    if depth_left >= 3:
        return _weighted([(4, lf), (7, for_), (3, while_), (2, back), (3, if_), (1, nested_if),
                          (1, ongoto), (1, nextlist)])
    return _weighted([(7, lf), (4, for_), (2, while_), (1, back), (3, if_), (1, nested_if),
                      (1, ongoto), (1, nextlist)])


def block(depth_left, in_sub, max_size=4, extra=None):
    return st.lists(stmt(depth_left, in_sub, extra), min_size=2 if (depth_left >= 1 and max_size > 2) else 1,
                    max_size=max_size)


def strat_tree():
    def build(main, subs, step, first, maxfatal):
        return {'main': main, 'subs': subs, 'numstep': step, 'numfirst': first,
                'maxfatal': maxfatal}
    return st.builds(build, st.lists(stmt(3, False), min_size=3, max_size=6),
                     st.lists(block(2, True, max_size=3), min_size=1, max_size=4),
                     st.sampled_from([10, 10, 1, 7, 100]), st.sampled_from([10, 10, 2, 1000]),
                     st.sampled_from([0, 0, 1, 1, 1, 2]))


def strat_chain():
    """Deep GOSUB nests: 8 routines, each calling the next from inside loops."""
    def build(main, subs):
        out = []
        for i, sb in enumerate(subs):
            out.append([{'t': 'tag'}] + sb[:1] + [{'t': 'gosub', 'k': 0}] + sb[1:])
        return {'main': main + [{'t': 'gosub', 'k': 0}, {'t': 'tag'}], 'subs': out}
    return st.builds(build, block(1, False, max_size=2),
                     st.lists(block(1, True, max_size=2), min_size=6, max_size=8))


ON_VALUES = [-32768, -2, -1, -0.75, -0.25, 0, 0.25, 0.75, 1, 1.25, 1.75, 2, 2.25, 3, 3.25, 4, 5, 100,
             254.75, 255, 255.25, 255.75, 256, 257, 1000, 32767]


def gen_on(shard, nshards, tier, seed):
    """Every boundary selector value x list length x GOTO/GOSUB, with statements after the ON."""
    cases = []
    for v in ON_VALUES:
        for n in (1, 2, 3):
            cases.append({'main': [{'t': 'tag'},
                                   {'t': 'on', 'kind': 'goto', 'sel': {'k': 'const', 'v': v},
                                    'arms': [[{'t': 'tag'}] for _ in range(n)], 'nl': n == 2},
                                   {'t': 'tag'}], 'subs': [], 'maxfatal': 1})
            cases.append({'main': [{'t': 'tag'},
                                   {'t': 'on', 'kind': 'gosub', 'sel': {'k': 'const', 'v': v},
                                    'subs': list(range(n)), 'nl': n == 2},
                                   {'t': 'tag', 'nl': n == 3}, {'t': 'tag'}],
                          'subs': [[{'t': 'tag'}], [{'t': 'tag'}, {'t': 'tag'}], [{'t': 'tag'}]],
                          'maxfatal': 1})
    return cases[shard::nshards]


def gen_corpus(shard, nshards, tier, seed):
    for name in CORPUS[shard::nshards]:
        yield {'u': 'corpus', 'name': name}


def units(tier):
    return [
        Unit('corpus', 'enum', shards=4, gen=gen_corpus),
        Unit('on-values', 'enum', shards=4, gen=gen_on, exhaustive=False),
        Unit('trees', 'hyp', shards=16, examples={'quick': 300, 'thorough': 8000},
             strategy=strat_tree, per_case_timeout=120.0),
        Unit('gosub-chains', 'hyp', shards=16, examples={'quick': 30, 'thorough': 800},
             strategy=strat_chain, per_case_timeout=120.0),
    ]


REGRESSIONS = [
    # fixed 7a22afc6: zero-trip inner loop closed by a NEXT list (NEXT J,I) raised Syntax error
    {'main': [{'t': 'for', 'ty': '!', 'a': 1, 'b': 2, 's': None, 'named': True, 'body': [
        {'t': 'tag'},
        {'t': 'for', 'ty': '!', 'a': 3, 'b': 1, 's': None, 'named': True, 'comb': True,
         'body': [{'t': 'tag'}]}]}, {'t': 'tag'}], 'subs': [], 'allow_zt_list': True},
    # fixed 51068ba5: integer counter running below -32768 must raise Overflow at NEXT
    {'main': [{'t': 'for', 'ty': '%', 'a': -32767, 'b': -32768, 's': -2, 'named': False,
               'body': [{'t': 'pv', 'up': 0}]}, {'t': 'tag'}], 'subs': []},
    {'main': [{'t': 'for', 'ty': '%', 'a': -50, 'b': -32768, 's': -16384, 'named': True,
               'body': [{'t': 'pv', 'up': 0}]}, {'t': 'tag'}], 'subs': []},
    {'main': [{'t': 'for', 'ty': '%', 'a': 32760, 'b': 32767, 's': 3, 'named': False,
               'body': [{'t': 'pv', 'up': 0}]}, {'t': 'tag'}], 'subs': []},
]

KILLS = [
    "interpreter.py for_: zero-trip test start>=stop (gte) -> trace",
    "interpreter.py return_: no skip_to(END_STATEMENT) after RETURN -> trace (ON n GOSUB a,b,c with n < last)",
    "interpreter.py on_jump_: i == onvar instead of onvar-1 -> trace",
    "interpreter.py on_jump_: range_check(0, 256) -> trace (unit on-values, ON 256)",
    "interpreter.py iterate_loop: loop ends when counter >= stop -> trace",
    "interpreter.py iterate_loop: match the top FOR record regardless of NEXT position -> trace",
    "interpreter.py iterate_loop: finished loop record not popped -> trace (GOTO back to NEXT after the loop; corpus FORNEXT6)",
    "interpreter.py wend_: records of loops left by GOTO not discarded -> trace / final.error-code",
    "interpreter.py _check_while_condition: WHILE record kept after a false condition -> trace",
    "interpreter.py jump_sub: GOSUB stack used as a queue -> trace, final.error-line",
    "interpreter.py _find_next: NEXT variable not compared -> trace (wrong NEXT variable)",
    "interpreter.py _find_next: FOR without NEXT raises error 1 -> final.error-code",
    "statements.py _parse_if: nested IF not counted / ELSE not un-counted when skipping to ELSE -> trace",
    "SURVIVED (unspecified domain): iterate_loop 'sgn > 0' -> '>= 0' only changes STEP 0, which statement and manual leave open",
    "SURVIVED (equivalent): iterate_loop not truncating for_stack above the matching record - records above a match are stale and never matched again",
]
