"""
C20 - user-defined functions never disturb the caller's variables.

A case is a small program: DEFtype statements, assignments to globals, up to three DEF FN
definitions (0..4 parameters of every type, explicit sigil or DEFtype-dependent; bodies that use
parameters, globals of the same names, other functions, themselves) and one call.  The call is
made from direct mode (Session.evaluate), from a program line, or from a program line under an
ON ERROR trap.  Oracles:

 (A) invariant: every scalar X Y N with every sigil (and an array named like a parameter) read
     through get_variable is identical before the call, after it, and after a forced garbage
     collection, whether the call returned or raised;
 (B) reference model: a dynamic-scope evaluator on exact Fractions (parameters bound to the
     argument converted to the parameter's type, result converted to the function's type) gives
     the result or the error code of the call;
 (C) a function that is re-entered while being evaluated raises Out of memory.
"""
from fractions import Fraction

from hypothesis import strategies as st

from vlib.core import Result, Unit
from vlib import harness

ID = 'C20'
LEVEL = 'exploration'
TECHNIQUE = ("Hypothesis-generated DEF FN programs; before/after/after-GC snapshots of all "
             "variables; independent dynamic-scope reference evaluator on exact Fractions")
RULE = ("Programs decoded from a Hypothesis-drawn genome: DEFINT/SNG/DBL/STR on the letters used, "
        "globals X Y N with every sigil (strings on the heap), an array named like a parameter, 1-3 "
        "functions with 0-4 distinct parameters (explicit and DEFtype-resolved types), bodies over "
        "parameters, same-named globals, constants, + - * /, LEN, string +, FRE(\"\"), SQR, calls to "
        "CHR$, the other functions (nesting <= 3), self and mutual recursion; 0-2 earlier calls in "
        "the same session before the judged one (mostly made to fail: in the body, in a nested "
        "call, in the arguments), each judged like a first call, DEF FN never re-executed; arguments that convert (3.75 "
        "-> integer), overflow (40000 -> %), mismatch (string <-> number), divide by zero; called "
        "from direct mode, from a program line, and under ON ERROR GOTO.  Non-trivial: a global "
        "shares its name with a parameter of a function that is evaluated, and the call raised or "
        "nested calls occurred; distinct = distinct case.")
ASSUMPTIONS = [
    "values are small dyadic rationals so every operation and conversion is exact; halves "
    "converted to integer and results after a soft Division by zero are not asserted",
    "when several arguments of one call fail, or a failing argument meets a re-entered function, "
    "any of the applicable error codes is accepted",
    "duplicate parameter names and wrong argument counts are not generated (unspecified)",
    "a DEFtype executed between DEF FN and the call (14% of cases): the manual does not say when an "
    "unsigiled parameter name gets its type, only that the default type applies 'when a variable "
    "name is used' and that the expression is evaluated 'with the supplied parameters substituted'; "
    "the result is asserted when typing all names at the call and typing the parameter names at the "
    "DEF FN (consistently in list and body) give the same result, otherwise only the variables are",
    "variables are observed through Session.get_variable (doubles through a Python float)",
]

BASES = ['X', 'Y', 'N']
SIGILS = ['', '%', '!', '#', '$']
FNBASES = ['A', 'B', 'C']
DEFWORD = {'%': 'DEFINT', '!': 'DEFSNG', '#': 'DEFDBL', '$': 'DEFSTR'}


def resolve(name, deftypes):
    if name[-1] in '%!#$':
        return name
    return name + (deftypes.get(name[0]) or '!')


# ---------------------------------------------------------------------------------------------
# expression nodes (lists):
#   ['c', text]  numeric constant      ['s', text] string literal      ['v', spelling] variable
#   [op, a, b] with op in + - * / cat   ['len', e]  ['sqr', e]  ['fre']  ['call', fnspelling, [args]]

def render(e):
    k = e[0]
    if k == 'c':
        return '(%s)' % e[1] if e[1].startswith('-') else e[1]
    if k == 's':
        return '"%s"' % e[1]
    if k == 'v':
        return e[1]
    if k in ('+', '-', '*', '/'):
        return '(%s%s%s)' % (render(e[1]), k, render(e[2]))
    if k == 'cat':
        return '(%s+%s)' % (render(e[1]), render(e[2]))
    if k == 'len':
        return 'LEN(%s)' % render(e[1])
    if k == 'sqr':
        return 'SQR(%s)' % render(e[1])
    if k == 'chr':
        return 'CHR$(%s)' % render(e[1])
    if k == 'fre':
        return 'FRE("")'
    if k == 'call':
        if not e[2]:
            return 'FN' + e[1]
        return 'FN%s(%s)' % (e[1], ','.join(render(a) for a in e[2]))
    raise ValueError(e)


# ---------------------------------------------------------------------------------------------
# reference evaluator

class Err(Exception):
    def __init__(self, codes, soft=False):
        Exception.__init__(self, codes)
        self.codes = frozenset(codes)
        self.soft = soft


def convert(val, sigil, ref):
    """val = ('n', Fraction) | ('s', str) converted to a variable/function type."""
    kind, v = val
    if sigil == '$':
        if kind != 's':
            raise Err({13})
        return val
    if kind != 'n':
        raise Err({13})
    if sigil == '%':
        if v.denominator != 1:
            if (2 * v).denominator == 1:
                ref.note('tie')
                v = Fraction(v.numerator // v.denominator + (1 if v > 0 else 0))
            else:
                fl = v.numerator // v.denominator
                v = Fraction(fl if v - fl < Fraction(1, 2) else fl + 1)
        if not -32768 <= v <= 32767:
            raise Err({6})
        return ('n', v)
    # single / double: generated values are dyadic with few bits
    if not small_dyadic(v):
        ref.note('inexact')
    return ('n', v)


def small_dyadic(v):
    return v == 0 or (abs(v) <= 2 ** 20 and v.denominator <= 2 ** 10 and
                      not v.denominator & (v.denominator - 1))


class Ref(object):
    def __init__(self, case, soft_is_hard, early_params=False):
        self.soft_is_hard = soft_is_hard
        # alternative reading for a DEFtype between DEF FN and call: names of the parameter list,
        # and their occurrences in that function's body, keep the type they had at the DEF FN
        self.early_params = early_params
        self.early = dict(case['deftypes'])
        self.unspec = None                 # first reason why the value is not asserted
        self.soft = None                   # first soft error (message printed, evaluation goes on)
        self.deftypes = dict(case['deftypes'])
        self.deftypes.update(case.get('late') or {})     # in force when the call is made
        self.fns = {}
        for f in case['fns']:
            self.fns[resolve(f['name'], self.deftypes)] = f
        self.entered_body = False          # some function body was evaluated (not only arguments)
        self.known_result_taint = False    # finding: result/argument is a view of a parameter
        self.leak = False                  # finding: string argument leaked by a failed call
        self.gc_vars = set()               # finding: string parameters shadowed while GC ran
        self.gc_ran = False
        self.calls = 0
        self.maxdepth = 0
        self.shadowing = False
        self.globals = {}
        for name, v in case['globals']:
            self.globals[name] = v

    def r(self, name, fn=None):
        if (self.early_params and fn is not None and name[-1] not in '%!#$'
                and name in fn['params']):
            return resolve(name, self.early)
        return resolve(name, self.deftypes)

    def note(self, why):
        """The value is not asserted from here on; evaluation continues with a stand-in."""
        if self.unspec is None:
            self.unspec = why

    def eval(self, e, env, active):
        k = e[0]
        if k == 'c':
            return ('n', Fraction(e[1]))
        if k == 's':
            return ('s', e[1])
        if k == 'v':
            name = self.r(e[1], active[-1] if active else None)
            if name in env:
                return env[name]
            return ('s', '') if name[-1] == '$' else ('n', Fraction(0))
        if k in ('+', '-', '*', '/'):
            a = self.eval(e[1], env, active)
            b = self.eval(e[2], env, active)
            if a[0] == 's' and b[0] == 's' and k == '+':
                return ('s', a[1] + b[1])
            if a[0] != 'n' or b[0] != 'n':
                raise Err({13})
            if k == '/':
                if b[1] == 0:
                    if self.soft_is_hard:
                        raise Err({11})
                    if self.unspec is None and self.soft is None:
                        self.soft = 11
                    self.note('soft-error')
                    return ('n', Fraction(2) ** 127)
                v = a[1] / b[1]
            else:
                v = a[1] + b[1] if k == '+' else a[1] - b[1] if k == '-' else a[1] * b[1]
            if not small_dyadic(v):
                self.note('inexact')
            return ('n', v)
        if k == 'cat':
            a = self.eval(e[1], env, active)
            b = self.eval(e[2], env, active)
            if a[0] == 's' and b[0] == 's':
                if len(a[1]) + len(b[1]) > 255:
                    raise Err({15})
                return ('s', a[1] + b[1])
            raise Err({13})
        if k == 'len':
            a = self.eval(e[1], env, active)
            if a[0] != 's':
                raise Err({13})
            return ('n', Fraction(len(a[1])))
        if k == 'sqr':
            a = self.eval(e[1], env, active)
            if a[0] != 'n':
                raise Err({13})
            if a[1] < 0:
                raise Err({5})
            for root in range(0, 1025):
                if root * root == a[1]:
                    return ('n', Fraction(root))
            self.note('sqr')
            return ('n', Fraction(int(float(a[1]) ** 0.5 * 1024), 1024))
        if k == 'chr':
            a = self.eval(e[1], env, active)
            n_ = convert(a, '%', self)[1]
            if not 0 <= n_ <= 255:
                raise Err({5})
            return ('s', chr(int(n_)))
        if k == 'fre':
            self.gc_ran = True
            for f in active:
                for p in f['params']:
                    if self.r(p, f)[-1] == '$':
                        self.gc_vars.add(self.r(p, f))
            self.note('fre-value')
            return ('n', Fraction(60000))
        if k == 'call':
            return self.call(e, env, active)
        raise ValueError(e)

    def call(self, e, env, active):
        fname = self.r(e[1])
        f = self.fns.get(fname)
        if f is None:
            raise Err({18})
        self.calls += 1
        self.maxdepth = max(self.maxdepth, len(active) + 1)
        params = [self.r(p, f) for p in f['params']]
        if len(set(params)) < len(params):
            self.note('duplicate-parameters')
        cur = active[-1] if active else None
        args = []
        errs = set()
        seen_string = False
        for p, a in zip(params, e[2]):
            try:
                v = convert(self.eval(a, env, active), p[-1], self)
                args.append(v)
            except Err as x:
                errs |= x.codes
                if seen_string:
                    self.leak = True
                args.append(None)
            if a[0] in ('s', 'cat') or (a[0] == 'v' and self.r(a[1], cur)[-1] == '$') or (
                    a[0] == 'call' and self.r(a[1])[-1] == '$'):
                seen_string = True
        if any(f is g for g in active):
            errs.add(7)
            if seen_string:
                self.leak = True
        if errs:
            raise Err(errs)
        # findings: an argument that is a bare variable named like an earlier parameter is read
        # after that parameter was overwritten; a body that is a bare parameter of the function's
        # own type is read after the parameter was restored
        for k_, a in enumerate(e[2]):
            if a[0] == 'v' and self.r(a[1], cur) in params[:k_] and (
                    self.r(a[1], cur)[-1] == params[k_][-1]):
                self.known_result_taint = True
        body = f['body']
        if body[0] == 'v' and self.r(body[1], f)[-1] == fname[-1]:
            # the body's value is the variable itself; it is a parameter of this function or of
            # one that is being evaluated further out, and will be restored before it is used
            bound = set(params)
            for g in active:
                bound.update(self.r(p, g) for p in g['params'])
            if self.r(body[1], f) in bound:
                self.known_result_taint = True
        for p in params:
            if p in self.globals:
                self.shadowing = True
        self.entered_body = True
        inner = dict(env)
        for p, v in zip(params, args):
            inner[p] = v
        val = self.eval(body, inner, active + [f])
        return convert(val, fname[-1], self)


# ---------------------------------------------------------------------------------------------
# program text

def lit_value(v):
    """Global value -> BASIC text (strings are built on the heap)."""
    if isinstance(v, str):
        if len(v) >= 2:
            return '"%s"+"%s"' % (v[:1], v[1:])
        return '"%s"+""' % v
    return v


def program_lines(case, route):
    lines = []
    if route == 'trap':
        lines.append('1 ON ERROR GOTO 900')
    dt = ['%s %s' % (DEFWORD[t], letter) for letter, t in sorted(case['deftypes'].items()) if t]
    if dt:
        lines.append('5 ' + ':'.join(dt))
    n = 10
    for name, v in case['globals']:
        lines.append('%d %s=%s' % (n, name, lit_value(v)))
        n += 1
    if case.get('array'):
        lines.append('%d DIM %s(2):%s(1)=%s' % (n, case['array'][0], case['array'][0],
                                                lit_value(case['array'][1])))
    n = 100
    for f in case['fns']:
        plist = '(%s)' % ','.join(f['params']) if f['params'] else ''
        lines.append('%d DEF FN%s%s=%s' % (n, f['name'], plist, render(f['body'])))
        n += 10
    rsig = resolve(case['call'][1], case['deftypes'])[-1]
    late = ['%s %s' % (DEFWORD[t], letter) for letter, t in sorted((case.get('late') or {}).items())]
    if late:
        # parameters without a sigil take their type when the function is evaluated
        lines.append('480 ' + ':'.join(late))
    lines.append('490 STOP')
    n = 492
    for prior in case.get('prior') or []:
        # earlier calls of the history; the DEF FN statements are not executed again
        psig = resolve(prior[1], case['deftypes'])[-1]
        lines.append('%d EZ%%=0:RZ%s=%s:STOP' % (n, psig, render(prior)))
        n += 2
    lines.append('500 EZ%%=0:RZ%s=%s' % (rsig, render(case['call'])))
    lines.append('510 END')
    lines.append('900 EZ%=ERR:RESUME NEXT')
    return lines, rsig


POOL = [b + s for b in BASES for s in '%!#$']


def snapshot(s, case, skip=()):
    snap = {}
    for name in POOL:
        if name in skip:
            continue
        snap[name] = s.get(name)
    if case.get('array'):
        aname = resolve(case['array'][0], case['deftypes'])
        snap[aname + '()'] = s.get(aname + '()')
    return snap


def pyval(v):
    """('n', Fraction)/('s', str) -> comparable python value."""
    return v[1].encode('latin-1') if v[0] == 's' else v[1]


def as_exact(x):
    if isinstance(x, (bytes, bytearray)):
        return bytes(x)
    return Fraction(x)


def expectation(case, route, early_params):
    ref = Ref(case, soft_is_hard=(route == 'trap'), early_params=early_params)
    genv = {}
    for name, v in case['globals']:
        genv[name] = ('s', v) if isinstance(v, str) else ('n', Fraction(v))
    try:
        want = ('val', ref.eval(case['call'], genv, []))
    except Err as x:
        # a soft error noted in another argument of the failing call may be printed first
        want = ('err', x.codes | ({ref.soft} if ref.soft is not None else set()))
    if ref.unspec == 'soft-error' and ref.soft is not None:
        if want[0] == 'val':
            want = ('soft', ref.soft)
    elif ref.unspec is not None:
        want = ('unspec', ref.unspec)
    return ref, want


def same_want(a, b):
    if a[0] != b[0]:
        return False
    if a[0] == 'err':
        return set(a[1]) == set(b[1])
    return a[1] == b[1]


def expectation_for(case, route, res=None):
    """Reference verdict for case['call'] (both readings if a late DEFtype applies)."""
    ref, want = expectation(case, route, False)
    if case.get('late'):
        # a DEFtype executed between DEF FN and call.  The manual: the default type is "assumed if
        # no sigil is specified when a variable name is used", and the expression "is evaluated
        # with the supplied parameters substituted" - so parameter list and body must agree on the
        # variable, whichever moment fixes its type.  The result is asserted when both consistent
        # readings (all names typed at the call; parameter names typed at the DEF FN) agree.
        _, want_b = expectation(case, route, True)
        if want[0] == 'unspec' or want_b[0] == 'unspec' or not same_want(want, want_b):
            want = ('unspec', 'late-deftype-readings-differ' if want[0] != 'unspec' and
                    want_b[0] != 'unspec' else want[1] if want[0] == 'unspec' else want_b[1])
        elif res is not None:
            res.label('late-deftype-asserted')
    return ref, want


def check_case(case):
    res = Result()
    route = case['route']
    # the four DEF FN findings were fixed in bdb77144: their regions are asserted like any other
    # (own bucket keys kept); 'strict': False would skip them again
    strict = bool(case.get('strict', True))
    calls = list(case.get('prior') or []) + [case['call']]
    lines, rsig = program_lines(case, route)
    res.label('route.' + route)
    res.label('prior-calls.%d' % (len(calls) - 1))

    with harness.Sess() as s:
        o = s.execute('\n'.join(lines) + '\nRUN')
        if o.kind != 'ok':
            res.fail('escaped.%s@%s' % (o.exc, o.frame) if o.kind == 'escaped' else 'setup.' + o.kind,
                     'setup: %r\n%s' % (o, '\n'.join(lines)))
            return res
        if o.errors or b'Break in 490' not in o.output:
            res.fail('setup.error', 'setup did not reach line 490: %r\n%s' % (o, '\n'.join(lines)))
            return res
        snap0 = snapshot(s, case)
        # sanity: the globals hold what the case says
        for name, v in case['globals']:
            exp = v.encode('latin-1') if isinstance(v, str) else Fraction(v)
            if as_exact(snap0[name]) != exp:
                res.fail('setup.global-value', '%s holds %r, expected %r\n%s' % (
                    name, snap0[name], v, '\n'.join(lines)))
                return res
        failed_before = None          # how an earlier call of this history failed, if one did
        for ci, call in enumerate(calls):
            last = ci == len(calls) - 1
            sub = dict(case, call=call)
            ref, want = expectation_for(sub, route, res if last else None)
            csig = resolve(call[1], case['deftypes'])[-1]
            if last:
                res.label('want.' + ('err.' + '/'.join(str(c) for c in sorted(want[1]))
                                     if want[0] == 'err' else 'unspec.' + want[1]
                                     if want[0] == 'unspec' else want[0]))
                res.label('depth.%d' % ref.maxdepth)
                if failed_before:
                    res.label('history.call-after-failure-in-' + failed_before)
                if ref.shadowing:
                    res.label('shadowing')
                if ref.gc_ran:
                    res.label('gc-inside-call')
            raised = want[0] == 'err'
            res.nt(ref.shadowing and (raised or ref.maxdepth >= 2 or bool(failed_before)))
            # the call
            text = render(call)
            if route == 'eval':
                o = s.evaluate(text)
            else:
                o = s.execute('GOTO %d' % (500 if last else 492 + 2 * ci))
            where = 'call %d of %d%s: %s  [%s]\n%s' % (
                ci + 1, len(calls), ' (an earlier call failed in the %s)' % failed_before
                if failed_before else '', text, route, '\n'.join(lines))
            if o.kind == 'budget':
                res.inconclusive = True
                return res
            if o.kind == 'escaped':
                exc = '%s@%s' % (o.exc, o.frame)
                known = None
                if exc == 'KeyError@strings.py:_retrieve':
                    # consequences of two findings inside the same call: a collection after a
                    # string parameter's global was dropped, or after a failed inner call leaked
                    # its argument
                    if ref.gc_vars:
                        known = 'caller-var.string-parameter-lost-in-gc'
                    elif ref.leak and ref.gc_ran:
                        known = 'gc-after-failed-call.leaked-string-argument'
                if known and not strict:
                    res.excluded += 1
                    res.label('region.' + known)
                else:
                    res.fail(known or 'escaped.' + exc, '%s\n%s' % (where, o.tb))
                return res
            if route == 'eval':
                got_err = [c for c, _ in o.errors]
                got_val = o.value
            elif route == 'prog':
                got_err = [c for c, _ in o.errors]
                got_val = s.get('RZ' + csig)
            else:
                ez = s.get('EZ%')
                got_err = [ez] if ez else []
                if o.errors:
                    res.fail('trap.message-printed', '%s: %r' % (where, o))
                got_val = s.get('RZ' + csig)

            # (B)/(C) result or error code
            problem = None
            if want[0] == 'err':
                codes = want[1]
                if not got_err:
                    problem = ('recursion.no-error' if 7 in codes else 'call.error-missing',
                               '%s: expected error %s, got value %r' % (where, sorted(codes), got_val))
                elif got_err[0] not in codes:
                    problem = ('recursion.wrong-error' if 7 in codes else 'call.error-code',
                               '%s: expected error %s, got %r' % (where, sorted(codes), got_err))
            elif want[0] == 'soft':
                if not got_err or got_err[0] != want[1]:
                    problem = ('call.error-code', '%s: expected message %d first, got %r' % (
                        where, want[1], got_err))
            elif want[0] == 'val':
                exp = pyval(want[1])
                if got_err:
                    problem = ('call.unexpected-error', '%s: expected %r, got error %r' % (
                        where, exp, got_err))
                elif got_val is None or as_exact(got_val) != exp:
                    problem = ('result.value', '%s: returned %r, expected %r' % (where, got_val, exp))
            if problem:
                if ref.known_result_taint:
                    # region of a finding: a parameter is read after it was rebound or restored
                    if strict:
                        res.fail('result.parameter-read-after-rebinding', problem[1])
                    else:
                        res.excluded += 1
                elif failed_before and want[0] == 'val' and got_err:
                    # a later call must behave like a first call
                    res.fail('later-call.fails-after-failed-call', problem[1])
                else:
                    res.fail(*problem)
            if ref.known_result_taint:
                res.label('region.parameter-view')

            # (A) the caller's variables
            skip = set()
            if ref.gc_vars and not strict:
                skip = set(ref.gc_vars)
                res.excluded += 1
                res.label('region.string-parameter-gc')
            for phase in ('after-call', 'after-gc'):
                if phase == 'after-gc':
                    if not last:
                        break
                    if (ref.leak or ref.gc_vars) and not strict:
                        if ref.leak:
                            res.excluded += 1
                            res.label('region.leaked-string-argument')
                        break
                    g = s.evaluate('FRE("")')
                    if g.kind == 'escaped':
                        exc = '%s@%s' % (g.exc, g.frame)
                        if ref.leak:
                            key = 'gc-after-failed-call.leaked-string-argument'
                        elif ref.gc_vars:
                            key = 'caller-var.string-parameter-lost-in-gc'
                        else:
                            key = 'escaped.' + exc
                        res.fail(key, 'FRE("") after %s\n%s' % (where, g.tb))
                        return res
                    if g.kind != 'ok' or g.errors:
                        res.fail('gc-after-call.error', 'FRE("") after %s: %r' % (where, g))
                        return res
                try:
                    snap = snapshot(s, case, skip)
                except Exception as e:         # noqa: B902 -- a broken variable table is a finding
                    res.fail('caller-var.unreadable.%s' % type(e).__name__, '%s after %s' % (e, where))
                    return res
                for name in sorted(snap):
                    if snap[name] != snap0[name]:
                        if name in ref.gc_vars:
                            key = 'caller-var.string-parameter-lost-in-gc'
                        elif raised or got_err:
                            key = 'caller-var.changed-after-error'
                        else:
                            key = 'caller-var.changed'
                        res.fail(key, '%s: %s was %r, is %r %s' % (
                            where, name, snap0[name], snap[name], phase))
            if got_err and not failed_before:
                failed_before = 'body' if ref.entered_body else 'arguments'
    return res


# ---------------------------------------------------------------------------------------------
# generator

NUMCONST = ['1', '2', '3', '0', '4', '3.75', '-3.25', '2.25', '10', '40000', '0.75', '-1', '7',
            '100', '5', '1.625']
STRCONST = ['a', 'bc', '', 'xyz', 'q']
GLOBNUM = {'%': [5, -7, 32767, 12], '!': [9, 2.5, -0.25, 1000], '#': [6, 0.125, -3.5, 300.5]}
GLOBSTR = ['glob', 'hi', 'w', 'heap!']


class Genome(object):
    def __init__(self, data):
        self.d = data
        self.i = 0

    def take(self, n):
        v = self.d[self.i] if self.i < len(self.d) else 0
        self.i += 1
        return v % n

    def pick(self, seq):
        return seq[self.take(len(seq))]


class Builder(object):
    def __init__(self, data):
        self.g = Genome(data)
        g = self.g
        self.deftypes = {}
        for letter in BASES + FNBASES:
            self.deftypes[letter] = [None, None, None, '%', '#', '$', '!', None][g.take(8)]
        self.early = dict(self.deftypes)
        self.late = {}
        if g.take(6) == 0:
            letter = g.pick(BASES)
            t = g.pick(['%', '#', '$', '!', '%'])
            if t != (self.deftypes[letter] or '!'):
                self.late[letter] = t
                self.deftypes[letter] = t          # everything below is typed as at call time
        self.nfn = g.pick([3, 3, 2, 3, 1, 2, 3, 3])
        self.fnspell = []
        for i in range(self.nfn):
            self.fnspell.append(FNBASES[i] + g.pick(SIGILS))
        # parameters first (bodies need to know every function's signature)
        self.params = []
        for i in range(self.nfn):
            n = g.pick([1, 2, 1, 3, 0, 2, 4, 1])
            ps, seen = [], set()
            for _ in range(n):
                sp = g.pick(BASES) + g.pick(SIGILS)
                r = resolve(sp, self.deftypes)
                if r not in seen:
                    seen.add(r)
                    ps.append(sp)
            self.params.append(ps)
        for letter in self.late:
            # make the late DEFtype bite: the bare letter is a parameter of the first function
            ps = self.params[0]
            if resolve(letter, self.deftypes) not in [resolve(q, self.deftypes) for q in ps]:
                ps.insert(0, letter)
                del ps[4:]

    def r(self, name):
        return resolve(name, self.deftypes)

    def spellings(self, kind, prefer=()):
        out = [sp for sp in prefer if (self.r(sp)[-1] == '$') == (kind == 's')]
        if out and self.g.take(4) < 3:
            return out
        return [b + s for b in BASES for s in SIGILS if (self.r(b + s)[-1] == '$') == (kind == 's')]

    def fns_of(self, kind, frm):
        """Functions callable from function index frm (-1 = top level) returning kind."""
        g = self.g
        anyfn = g.take(12) == 0          # now and then: any function, which may recurse
        out = []
        for j in range(self.nfn):
            if (self.r(self.fnspell[j])[-1] == '$') != (kind == 's'):
                continue
            if j > frm or anyfn:
                out.append(j)
        return out

    def call(self, j, depth, frm, params):
        args = []
        for p in self.params[j]:
            want = 's' if self.r(p)[-1] == '$' else 'n'
            if self.g.take(16) == 0:
                want = 'n' if want == 's' else 's'          # mismatching argument
            args.append(self.expr(want, depth - 1, frm, params))
        return ['call', self.fnspell[j], args]

    hostile = False

    def expr(self, kind, depth, frm, params):
        g = self.g
        k = g.take(16)
        if kind == 'n':
            if depth <= 0 or k < 4:
                if self.hostile and g.take(2):
                    # arguments that make a body fail: SQR(<0), CHR$(>255), % overflow, 1/0
                    return ['c', g.pick(['-4', '40000', '0', '-1', '300', '70000', '-9'])]
                if k % 2 == 0:
                    return ['c', g.pick(NUMCONST)]
                return ['v', g.pick(self.spellings('n', params))]
            if k < 7:
                return [g.pick(['+', '*', '-', '+', '/', '-']),
                        self.expr('n', depth - 1, frm, params), self.expr('n', depth - 1, frm, params)]
            if k < 13:
                fs = self.fns_of('n', frm)
                if fs:
                    return self.call(g.pick(fs), depth, frm, params)
                return ['v', g.pick(self.spellings('n', params))]
            if k == 13:
                return ['len', self.expr('s', depth - 1, frm, params)]
            if k == 14:
                if g.take(3) == 0:
                    return ['fre']
                return ['sqr', self.expr('n', depth - 1, frm, params)]
            return ['v', g.pick(self.spellings('n', params))]
        if depth <= 0 or k < 6:
            if k % 2 == 0:
                return ['cat', ['s', g.pick(STRCONST)], ['s', g.pick(STRCONST)]]
            return ['v', g.pick(self.spellings('s', params))]
        if k < 10:
            return ['cat', self.expr('s', depth - 1, frm, params), self.expr('s', depth - 1, frm, params)]
        if k < 14:
            fs = self.fns_of('s', frm)
            if fs:
                return self.call(g.pick(fs), depth, frm, params)
        if k == 15:
            return ['+', self.expr('s', depth - 1, frm, params), self.expr('n', depth - 1, frm, params)]
        if k == 14:
            return ['chr', self.expr('n', depth - 1, frm, params)]
        return ['v', g.pick(self.spellings('s', params))]

    def build(self, route, gc):
        g = self.g
        fns = []
        for i in range(self.nfn):
            kind = 's' if self.r(self.fnspell[i])[-1] == '$' else 'n'
            shape = g.take(8)
            if shape == 0 and self.params[i]:
                body = ['v', g.pick(self.params[i])]             # identity body
            else:
                body = self.expr(kind, 2 + g.take(2), i, self.params[i])
            fns.append({'name': self.fnspell[i], 'params': self.params[i], 'body': body})
        globs = []
        for name in POOL:
            if g.take(4) == 0:
                continue
            if name[-1] == '$':
                globs.append([name, g.pick(GLOBSTR)])
            else:
                globs.append([name, g.pick(GLOBNUM[name[-1]])])
        array = None
        if g.take(3) == 0:
            b = g.pick(BASES) + g.pick(['!', '%', '$'])
            array = [b, 'arr' if b[-1] == '$' else 7]
        j = g.pick([0, 0, 0, 1, 2]) % self.nfn
        call = self.call(j, 2, -1, ())
        # earlier calls of the same session, made to fail more often than not
        prior = []
        for _ in range(g.pick([0, 1, 0, 2, 1, 0])):
            self.hostile = g.take(4) > 0
            pj = j if g.take(3) else g.take(self.nfn)
            prior.append(self.call(pj, 2, -1, ()))
        self.hostile = False
        return {'deftypes': self.early, 'late': self.late, 'globals': globs, 'array': array,
                'fns': fns, 'call': call, 'prior': prior, 'route': route}


def strat():
    def build(data, route):
        return Builder(data).build(route, True)
    return st.builds(build, st.binary(min_size=200, max_size=200),
                     st.sampled_from(['eval', 'prog', 'trap', 'eval']))


def units(tier):
    return [
        Unit('programs', 'hyp', shards=16, examples={'quick': 600, 'thorough': 20000},
             strategy=strat),
    ]


def _case(globs, fns, call, route='eval', deftypes=None, strict=True, array=None, late=None,
          prior=None):
    dt = {letter: None for letter in BASES + FNBASES}
    dt.update(deftypes or {})
    return {'deftypes': dt, 'late': late or {}, 'globals': globs, 'array': array, 'fns': fns,
            'call': call, 'prior': prior or [], 'route': route, 'strict': strict}


REGRESSIONS = [
    # sound behaviour: conversion of the argument, shadowed global restored, nested calls
    _case([['X%', 5]], [{'name': 'A', 'params': ['X%'], 'body': ['*', ['v', 'X%'], ['c', '1']]}],
          ['call', 'A', [['c', '3.75']]]),
    _case([['X!', 9]], [{'name': 'A%', 'params': ['X'], 'body': ['*', ['v', 'X'], ['c', '2']]},
                        {'name': 'B', 'params': ['X'],
                         'body': ['+', ['call', 'A%', [['+', ['v', 'X'], ['c', '1']]]], ['v', 'X']]}],
          ['call', 'B', [['c', '3']]], route='prog'),
    # a DEFtype after the definition: the parameter is created by the call and removed again
    _case([['X!', 2]], [{'name': 'A', 'params': ['X'], 'body': ['+', ['v', 'X'], ['c', '1']]}],
          ['call', 'A', [['c', '7']]], late={'X': '%'}),
    _case([['X%', 7]], [{'name': 'F', 'params': ['X'],
                         'body': ['+', ['*', ['v', 'X'], ['c', '2']], ['c', '1']]}],
          ['call', 'F', [['c', '10']]], route='prog', late={'X': '%'}),
    _case([['X!', 2.5], ['X$', 'glob']], [{'name': 'F$', 'params': ['X'],
                                          'body': ['cat', ['v', 'X'], ['s', 'z']]}],
          ['call', 'F$', [['cat', ['s', 'a'], ['s', 'b']]]], late={'X': '$'}),
    # a call that fails inside the body, then the same function (or one using it) again
    _case([['X!', 9]], [{'name': 'A', 'params': ['X'], 'body': ['sqr', ['v', 'X']]}],
          ['call', 'A', [['c', '4']]], route='trap', prior=[['call', 'A', [['c', '-4']]]]),
    _case([['X!', 9]], [{'name': 'A', 'params': ['X'], 'body': ['sqr', ['v', 'X']]}],
          ['call', 'A', [['c', '16']]], route='prog', prior=[['call', 'A', [['c', '-4']]]]),
    _case([['N$', 'glob']], [{'name': 'A$', 'params': ['N%'], 'body': ['cat', ['chr', ['v', 'N%']], ['v', 'N$']]},
                             {'name': 'B$', 'params': ['X'], 'body': ['call', 'A$', [['+', ['v', 'X'], ['c', '1']]]]}],
          ['call', 'B$', [['c', '64']]], route='eval',
          prior=[['call', 'B$', [['c', '300']]], ['call', 'A$', [['cat', ['s', 'a'], ['s', 'b']]]]]),
    # recursion: direct and mutual
    _case([['X!', 2]], [{'name': 'A', 'params': ['X'], 'body': ['call', 'A', [['v', 'X']]]}],
          ['call', 'A', [['c', '1']]], route='trap'),
    _case([['Y!', 2]], [{'name': 'A', 'params': ['X'], 'body': ['call', 'B', [['v', 'X']]]},
                        {'name': 'B', 'params': ['Y'], 'body': ['call', 'A', [['v', 'Y']]]}],
          ['call', 'A', [['c', '1']]]),
    # fixed 8b0d6f2c: an expression that raised left its operand stack behind; the next collection
    # dereferenced the stale string
    _case([], [{'name': 'A$', 'params': ['X'],
                'body': ['cat', ['cat', ['s', 'ab'], ['s', 'c']], ['+', ['v', 'X'], ['s', 'x']]]}],
          ['call', 'A$', [['c', '1']]]),
    # fixed 43ccddd6: a collection inside the argument list while no permanent string exists
    _case([], [{'name': 'A$', 'params': ['X'], 'body': ['cat', ['s', 'bc'], ['s', 'xyz']]}],
          ['call', 'A$', [['fre']]], route='prog'),
    # fixed bdb77144: DEF FNA(X)=X returned the global X, not the argument
    _case([['X!', 9]], [{'name': 'A', 'params': ['X'], 'body': ['v', 'X']}],
          ['call', 'A', [['c', '3']]]),
    # fixed bdb77144: X=5:Y=3:FNB(Y,X) with DEF FNB(X,Y)=X-Y gave 0
    _case([['X!', 5], ['Y!', 3]],
          [{'name': 'B', 'params': ['X', 'Y'], 'body': ['-', ['v', 'X'], ['v', 'Y']]}],
          ['call', 'B', [['v', 'Y'], ['v', 'X']]], route='prog'),
    # fixed bdb77144: a global string named like a parameter was lost when the body collected garbage
    _case([['X$', 'hello'], ['Y$', 'world']], [{'name': 'A', 'params': ['X$'], 'body': ['fre']}],
          ['call', 'A', [['cat', ['s', 'ab'], ['s', 'c']]]]),
    # fixed bdb77144: after a re-entered function / a failing later argument the string argument
    # stayed registered as a temporary and the next garbage collection failed
    _case([], [{'name': 'A$', 'params': ['X$'],
                'body': ['call', 'A$', [['cat', ['v', 'X$'], ['s', 'a']]]]}],
          ['call', 'A$', [['cat', ['s', 'q'], ['s', 'r']]]], route='trap'),
    _case([], [{'name': 'A$', 'params': ['X$', 'Y'], 'body': ['v', 'X$']}],
          ['call', 'A$', [['cat', ['s', 'q'], ['s', 'r']], ['s', 's']]]),
]

KILLS = [
    "userfunctions.py restore of the saved variables only when the body returned (not in finally) -> "
    "caller-var.changed-after-error",
    "userfunctions.py variables created by the call are not saved/restored ('restore only parameters "
    "that existed before'; reachable through a DEFtype after the DEF FN) -> caller-var.changed",
    "userfunctions.py _is_parsing cleared before the body is parsed / re-entry check skipped -> "
    "escaped.RecursionError@*, recursion.wrong-error",
    "userfunctions.py arguments bound without conversion -> caller-var.changed-after-error, result.value",
    "userfunctions.py result not converted to the function type -> call.error-missing, result.value",
    "userfunctions.py last saved variable not restored -> caller-var.changed, caller-var.changed-after-error",
    "userfunctions.py evaluate(): _is_parsing reset only on the success path (wave-5 seed; needs a "
    "call that fails inside a body and a later call without re-executing DEF FN) -> "
    "later-call.fails-after-failed-call, call.error-code, result.parameter-read-after-rebinding "
    "(regressions SQR/CHR$ histories and the random unit)",
    "userfunctions.py define(): parameter names completed with their sigil at DEF FN time (seeded "
    "change; needs an unsigiled parameter and a DEFtype between DEF FN and call) -> result.value, "
    "call.error-missing, call.unexpected-error (regressions FNA(7)/FNF(10) and random unit)",
    "fix bdb77144 reverted (userfunctions.py as in the snapshot) -> result.parameter-read-after-"
    "rebinding, caller-var.string-parameter-lost-in-gc, gc-after-failed-call.leaked-string-argument, "
    "caller-var.unreadable.KeyError (regressions and random unit)",
]
