"""
File-system access monitor for C27 (PEP 578 audit hook) plus sentinel-tree effect checks.

An audit hook cannot be removed, so exactly one hook is installed per process (`install()`), and it
does nothing unless a `Monitor` is armed (`with mon.armed(): session.execute(...)`).  While armed,
every audit event that names a host path is recorded whatever Python API raised it (`open`,
`os.listdir`, `os.scandir`, `os.mkdir`, `os.rmdir`, `os.remove`, `os.rename`, `os.truncate`,
`shutil.*`, ...), so the observation does not depend on which functions the code under test happens
to call today.  Classification (inside a mounted root / allow-listed read / outside) is done after
disarming, on realpath-resolved names.

A Monitor can also be given a *fence* directory: while armed, any operation that is not read-only
and names a path outside the fence is refused (the hook raises PermissionError, which PEP 578
turns into the failure of that operation) as well as recorded.  The code under observation may be
genuinely broken - that is what is being tested - so it must not be able to damage the host:
C27 runs every BASIC statement with the fence set to the case's sandbox directory.

Events raised on behalf of Python itself (the import system, linecache reading a source file for a
traceback) are recognised by their call stack and classified as allowed when read-only.

Nothing in here imports or calls pcbasic.
"""
import os
import sys
import errno
import hashlib
import contextlib

_installed = False
_current = None          # the armed Monitor, or None

# events that carry one or two path arguments (index list); everything else with an `os.`,
# `shutil.`, `glob.`, `pathlib.`, `tempfile.` or `subprocess.` prefix is recorded with arg 0
_TWO_PATHS = {
    'os.rename', 'os.link', 'os.symlink', 'shutil.copyfile', 'shutil.move', 'shutil.copytree',
    'shutil.copymode', 'shutil.copystat',
}
_PREFIXES = ('os.', 'shutil.', 'glob.', 'pathlib.', 'tempfile.', 'subprocess.')
# events under those prefixes that do not name a file-system object we care about
_IGNORE = {
    'os.putenv', 'os.unsetenv', 'os.kill', 'os.killpg', 'os.fork', 'os.forkpty', 'os.getxattr',
    'os.listxattr', 'os.add_dll_directory',
}
# events that only read / list
_READ_EVENTS = {'os.listdir', 'os.scandir', 'os.walk', 'os.fwalk', 'glob.glob', 'glob.glob/2',
                'pathlib.Path.glob', 'pathlib.Path.rglob'}
_PROCESS_EVENTS = {'os.system', 'os.exec', 'os.posix_spawn', 'os.spawn', 'os.startfile',
                   'subprocess.Popen'}

_WRITE_FLAGS = os.O_WRONLY | os.O_RDWR | os.O_CREAT | os.O_TRUNC | os.O_APPEND


def _hook(event, args):
    mon = _current
    if mon is None:
        return
    if event == 'open' or (event.startswith(_PREFIXES) and event not in _IGNORE):
        try:
            cwd = os.getcwd()
            args = tuple(args)
        except Exception:        # never let the monitor break the code under observation
            mon._raw.append((event, ('<unreadable>',), None, False, False))
            return
        blocked = mon.fence is not None and mon._must_block(event, args, cwd)
        mon._raw.append((event, args, cwd, blocked, _python_internal()))
        if blocked:
            # PEP 578: an exception raised by a hook aborts the operation before it happens.
            # The operation is recorded (and will be reported); it just cannot do damage.
            raise PermissionError(errno.EACCES, 'vlib.fsmon fence: %s outside %s refused'
                                  % (event, mon.fence))


def _python_internal():
    """
    True if the event is raised on behalf of Python's own machinery (the import system looking
    for / reading a module, linecache reading a source file to format a traceback) rather than by
    the observed code: decided from the call stack, not from the path.
    """
    f = sys._getframe(2)
    n = 0
    while f is not None and n < 60:
        fn = f.f_code.co_filename
        if fn.startswith('<frozen importlib') or fn.endswith(('/linecache.py', '/tokenize.py')):
            return True
        f = f.f_back
        n += 1
    return False


def install():
    """Install the process-wide hook once."""
    global _installed
    if not _installed:
        sys.addaudithook(_hook)
        _installed = True


def _to_str(p):
    """Path argument -> str, or None when it is a file descriptor / not a path."""
    if isinstance(p, int) or p is None:
        return None
    try:
        p = os.fspath(p)
    except TypeError:
        return None
    if isinstance(p, bytes):
        p = os.fsdecode(p)
    return p


def resolve(path, cwd=None):
    """Absolute, symlink-free, '..'-free form of a path (does not need to exist)."""
    if not os.path.isabs(path):
        path = os.path.join(cwd or os.getcwd(), path)
    try:
        return os.path.realpath(path)
    except (ValueError, OSError):
        # embedded NUL etc.: fall back to lexical normalisation
        return os.path.normpath(path)


def is_below(path, root):
    """path == root or path lies under root (both resolved)."""
    return path == root or path.startswith(root.rstrip(os.sep) + os.sep)


class Event(object):
    """One recorded host file-system operation."""

    __slots__ = ('event', 'paths', 'resolved', 'write', 'process', 'detail', 'blocked',
                 'internal')

    def __init__(self, event, paths, resolved, write, process, detail, blocked=False,
                 internal=False):
        self.blocked = blocked      # refused by the fence (never executed)
        self.internal = internal    # raised by the import system / linecache (see _python_internal)
        self.event = event
        self.paths = paths          # as given
        self.resolved = resolved    # realpath-resolved
        self.write = write          # True unless the operation only reads/lists
        self.process = process
        self.detail = detail

    def __repr__(self):
        return '%s(%s)%s%s' % (self.event, ', '.join(repr(p) for p in self.paths),
                               '' if self.write else ' [read]',
                               ' [refused by fence]' if self.blocked else '')


def _open_is_write(args):
    mode = args[1] if len(args) > 1 else None
    flags = args[2] if len(args) > 2 else 0
    if isinstance(mode, str):
        return any(c in mode for c in 'wax+')
    if isinstance(flags, int):
        return bool(flags & _WRITE_FLAGS)
    return True


def default_allowed_read_roots():
    """Where lazy imports and package resources legitimately read from."""
    roots = {sys.prefix, sys.base_prefix, sys.exec_prefix, os.path.dirname(os.__file__)}
    repo = os.environ.get('VERIF_REPO', '/repo')
    roots.add(os.path.join(repo, 'pcbasic'))
    for p in sys.path:
        if p and os.path.isdir(p) and ('site-packages' in p or p.endswith('.deps')):
            roots.add(p)
    return sorted({os.path.realpath(r) for r in roots if r})


class Monitor(object):
    """
    Records host file-system operations while armed and classifies them against a set of
    permitted roots (the mounted drives).
    """

    def __init__(self, roots, allowed_read_roots=None, fence=None):
        """
        roots: directories the observed code may touch (the mounted drives).
        fence: optional directory; while armed, any operation that is not read-only and names a
               path outside `fence` (and outside os.devnull) is *refused* with PermissionError
               before it happens, besides being recorded.  This keeps a genuinely escaping
               interpreter (or a seeded mutant) from damaging the host while it is being caught.
        """
        install()
        self.roots = [os.path.realpath(r) for r in roots]
        self.fence = os.path.realpath(fence) if fence else None
        if allowed_read_roots is None:
            allowed_read_roots = default_allowed_read_roots()
        self.allowed_read_roots = list(allowed_read_roots)
        self.allowed_exact = {os.path.realpath(os.devnull)}
        self._raw = []

    def _paths_of(self, event, args):
        cand = args[:2] if event in _TWO_PATHS else args[:1]
        return [s for s in (_to_str(a) for a in cand) if s is not None]

    def _is_write(self, event, args):
        if event == 'open':
            return _open_is_write(args)
        return event not in _READ_EVENTS

    def _must_block(self, event, args, cwd):
        """Called inside the hook: True if the operation must be refused."""
        if event in _PROCESS_EVENTS:
            return True
        if not self._is_write(event, args):
            return False
        for p in self._paths_of(event, args):
            rp = resolve(p, cwd)
            if not is_below(rp, self.fence) and rp not in self.allowed_exact:
                return True
        return False

    @contextlib.contextmanager
    def armed(self):
        global _current
        prev = _current
        _current = self
        try:
            yield self
        finally:
            _current = prev

    def drain(self):
        """Return the Events recorded since the last drain."""
        raw, self._raw = self._raw, []
        out = []
        for event, args, cwd, blocked, internal in raw:
            paths = self._paths_of(event, args)
            process = event in _PROCESS_EVENTS
            if not paths and not process:
                continue                    # file-descriptor based: the descriptor was opened earlier
            write = self._is_write(event, args)
            resolved = [resolve(p, cwd) for p in paths]
            out.append(Event(event, paths, resolved, write, process, repr(args)[:300], blocked,
                             internal))
        return out

    def where(self, ev):
        """'inside' | 'allowed' | 'outside' for one Event."""
        if ev.process:
            return 'outside'
        if ev.internal and not ev.write:
            return 'allowed'
        verdict = 'inside'
        for rp in ev.resolved:
            if any(is_below(rp, r) for r in self.roots):
                continue
            if rp in self.allowed_exact:
                verdict = 'allowed' if verdict != 'outside' else verdict
                continue
            if not ev.write and any(is_below(rp, r) for r in self.allowed_read_roots):
                verdict = 'allowed' if verdict != 'outside' else verdict
                continue
            verdict = 'outside'
        return verdict


# ---------------------------------------------------------------------------------------------
# effect checks: snapshot of a directory tree

def snapshot(root, prune=()):
    """
    {relative path: ('d',) | ('f', size, sha1 hex) | ('l', target)} for everything under `root`,
    not descending into the (absolute) directories in `prune` (they are recorded as ('d',)).
    """
    prune = {os.path.realpath(p) for p in prune}
    snap = {}
    stack = [root]
    while stack:
        d = stack.pop()
        try:
            entries = sorted(os.scandir(d), key=lambda e: e.name)
        except OSError as e:
            snap[os.path.relpath(d, root)] = ('unreadable', e.errno)
            continue
        for e in entries:
            rel = os.path.relpath(e.path, root)
            if e.is_symlink():
                snap[rel] = ('l', os.readlink(e.path))
            elif e.is_dir(follow_symlinks=False):
                snap[rel] = ('d',)
                if os.path.realpath(e.path) not in prune:
                    stack.append(e.path)
            else:
                try:
                    with open(e.path, 'rb') as f:
                        data = f.read()
                    snap[rel] = ('f', len(data), hashlib.sha1(data).hexdigest())
                except OSError as err:
                    snap[rel] = ('unreadable', err.errno)
    return snap


def diff_snapshots(before, after):
    """-> list of (kind, relpath) with kind in created|deleted|modified."""
    out = []
    for k in sorted(set(before) | set(after)):
        if k not in after:
            out.append(('deleted', k))
        elif k not in before:
            out.append(('created', k))
        elif before[k] != after[k]:
            out.append(('modified', k))
    return out
