"""
Canonical BASIC program-line generator with an independent tokenise/list model (C17, reused by
C13, C14, C15).

A line body is a list of *atoms* (JSON-native lists).  `render(atoms, syntax)` returns three byte
strings that are computed here, from the GW-BASIC tokenised-format description in the manual
(docs/source/techref.html: keyword token list, numeric token sequences, MBF) and never from
pcbasic code:

    entered : the text as typed (random keyword/name capitalisation, alternative number spellings)
    canon   : the text the lister must show (upper-case keywords and names, normalised numbers)
    tokens  : the tokenised bytes of the line body

Atoms
    ['k', KEYWORD, mask]      reserved word; bit i of mask set -> letter i typed in lower case;
                              mask -1 on PRINT means typed as '?'
    ['o', c]                  operator symbol, one of  > = < + - * / ^ \\
    ['p', text]               punctuation / raw printable ASCII that is stored unchanged
    ['v', name, mask]         variable name or non-reserved syntax word (stored upper-cased)
    ['s', text, closed]       string literal (latin-1 text without '"', CR, LF, NUL, 0x0b-0x1f)
    ['n', cls, ...]           number literal: ['n','d',0..9] ['n','b',10..255] ['n','i',256..32767]
                              ['n','h',v,form] ['n','o',v,form] ['n','s',mant,exp10,form]
                              ['n','f',mant,exp10,form]
    ['j', n]                  jump (indirect line) number 0..65529 in jump-number context
    ['sp', n]                 n blanks
    ['rem', style, mask, text]  "REM" or "'" comment up to the end of the line (last atom only)
    ['data', mask, text]      DATA statement; text is the raw remainder (no ':' outside quotes)
"""
from fractions import Fraction

from hypothesis import strategies as st

from vlib import mbf

# ---------------------------------------------------------------------------------------------
# keyword <-> token table, transcribed from the manual (techref.html "Keyword tokens")

_KW_TABLE = [
    ('81', 'END'), ('82', 'FOR'), ('83', 'NEXT'), ('84', 'DATA'), ('85', 'INPUT'), ('86', 'DIM'),
    ('87', 'READ'), ('88', 'LET'), ('89', 'GOTO'), ('8A', 'RUN'), ('8B', 'IF'), ('8C', 'RESTORE'),
    ('8D', 'GOSUB'), ('8E', 'RETURN'), ('8F', 'REM'), ('90', 'STOP'), ('91', 'PRINT'),
    ('92', 'CLEAR'), ('93', 'LIST'), ('94', 'NEW'), ('95', 'ON'), ('96', 'WAIT'), ('97', 'DEF'),
    ('98', 'POKE'), ('99', 'CONT'), ('9C', 'OUT'), ('9D', 'LPRINT'), ('9E', 'LLIST'),
    ('A0', 'WIDTH'), ('A1', 'ELSE'), ('A2', 'TRON'), ('A3', 'TROFF'), ('A4', 'SWAP'),
    ('A5', 'ERASE'), ('A6', 'EDIT'), ('A7', 'ERROR'), ('A8', 'RESUME'), ('A9', 'DELETE'),
    ('AA', 'AUTO'), ('AB', 'RENUM'), ('AC', 'DEFSTR'), ('AD', 'DEFINT'), ('AE', 'DEFSNG'),
    ('AF', 'DEFDBL'), ('B0', 'LINE'), ('B1', 'WHILE'), ('B2', 'WEND'), ('B3', 'CALL'),
    ('B7', 'WRITE'), ('B8', 'OPTION'), ('B9', 'RANDOMIZE'), ('BA', 'OPEN'), ('BB', 'CLOSE'),
    ('BC', 'LOAD'), ('BD', 'MERGE'), ('BE', 'SAVE'), ('BF', 'COLOR'), ('C0', 'CLS'),
    ('C1', 'MOTOR'), ('C2', 'BSAVE'), ('C3', 'BLOAD'), ('C4', 'SOUND'), ('C5', 'BEEP'),
    ('C6', 'PSET'), ('C7', 'PRESET'), ('C8', 'SCREEN'), ('C9', 'KEY'), ('CA', 'LOCATE'),
    ('CC', 'TO'), ('CD', 'THEN'), ('CE', 'TAB('), ('CF', 'STEP'), ('D0', 'USR'), ('D1', 'FN'),
    ('D2', 'SPC('), ('D3', 'NOT'), ('D4', 'ERL'), ('D5', 'ERR'), ('D6', 'STRING$'),
    ('D7', 'USING'), ('D8', 'INSTR'), ('D9', "'"), ('DA', 'VARPTR'), ('DB', 'CSRLIN'),
    ('DC', 'POINT'), ('DD', 'OFF'), ('DE', 'INKEY$'), ('E6', '>'), ('E7', '='), ('E8', '<'),
    ('E9', '+'), ('EA', '-'), ('EB', '*'), ('EC', '/'), ('ED', '^'), ('EE', 'AND'), ('EF', 'OR'),
    ('F0', 'XOR'), ('F1', 'EQV'), ('F2', 'IMP'), ('F3', 'MOD'), ('F4', '\\'), ('FD81', 'CVI'),
    ('FD82', 'CVS'), ('FD83', 'CVD'), ('FD84', 'MKI$'), ('FD85', 'MKS$'), ('FD86', 'MKD$'),
    ('FD8B', 'EXTERR'), ('FE81', 'FILES'), ('FE82', 'FIELD'), ('FE83', 'SYSTEM'), ('FE84', 'NAME'),
    ('FE85', 'LSET'), ('FE86', 'RSET'), ('FE87', 'KILL'), ('FE88', 'PUT'), ('FE89', 'GET'),
    ('FE8A', 'RESET'), ('FE8B', 'COMMON'), ('FE8C', 'CHAIN'), ('FE8D', 'DATE$'), ('FE8E', 'TIME$'),
    ('FE8F', 'PAINT'), ('FE90', 'COM'), ('FE91', 'CIRCLE'), ('FE92', 'DRAW'), ('FE93', 'PLAY'),
    ('FE94', 'TIMER'), ('FE95', 'ERDEV'), ('FE96', 'IOCTL'), ('FE97', 'CHDIR'), ('FE98', 'MKDIR'),
    ('FE99', 'RMDIR'), ('FE9A', 'SHELL'), ('FE9B', 'ENVIRON'), ('FE9C', 'VIEW'),
    ('FE9D', 'WINDOW'), ('FE9E', 'PMAP'), ('FE9F', 'PALETTE'), ('FEA0', 'LCOPY'),
    ('FEA1', 'CALLS'), ('FEA5', 'PCOPY'), ('FEA7', 'LOCK'), ('FEA8', 'UNLOCK'), ('FF81', 'LEFT$'),
    ('FF82', 'RIGHT$'), ('FF83', 'MID$'), ('FF84', 'SGN'), ('FF85', 'INT'), ('FF86', 'ABS'),
    ('FF87', 'SQR'), ('FF88', 'RND'), ('FF89', 'SIN'), ('FF8A', 'LOG'), ('FF8B', 'EXP'),
    ('FF8C', 'COS'), ('FF8D', 'TAN'), ('FF8E', 'ATN'), ('FF8F', 'FRE'), ('FF90', 'INP'),
    ('FF91', 'POS'), ('FF92', 'LEN'), ('FF93', 'STR$'), ('FF94', 'VAL'), ('FF95', 'ASC'),
    ('FF96', 'CHR$'), ('FF97', 'PEEK'), ('FF98', 'SPACE$'), ('FF99', 'OCT$'), ('FF9B', 'LPOS'),
    ('FF9A', 'HEX$'), ('FF9C', 'CINT'), ('FF9D', 'CSNG'), ('FF9E', 'CDBL'), ('FF9F', 'FIX'),
    ('FFA0', 'PEN'), ('FFA1', 'STICK'), ('FFA2', 'STRIG'), ('FFA3', 'EOF'), ('FFA4', 'LOC'),
    ('FFA5', 'LOF'),
]
_KW_EXTRA = [('FEA4', 'NOISE'), ('FEA6', 'TERM')]       # syntax = pcjr | tandy only

SYNTAXES = ('advanced', 'pcjr', 'tandy')
OPERATOR_SYMBOLS = '>=<+-*/^\\'


def keyword_table(syntax='advanced'):
    """keyword (str) -> token bytes for a dialect."""
    tab = list(_KW_TABLE)
    if syntax in ('pcjr', 'tandy'):
        tab += _KW_EXTRA
    return {kw: bytes.fromhex(tok) for tok, kw in tab}


_TABLES = {s: keyword_table(s) for s in SYNTAXES}
ALL_WORDS = sorted(set(kw for s in SYNTAXES for kw in _TABLES[s]))


def apply_mask(word, mask):
    """Lower-case letter i of word where bit i of mask is set."""
    if mask == 0:
        return word
    return ''.join(c.lower() if (mask >> i) & 1 else c for i, c in enumerate(word))


def keyword_tokens(word, syntax):
    """Token bytes as stored by the tokeniser for one reserved word (with the three specials)."""
    tok = _TABLES[syntax][word]
    if word == 'ELSE':
        return b':' + tok           # ELSE is stored as :ELSE
    if word == 'WHILE':
        return tok + b'\xe9'        # WHILE is stored as WHILE+
    if word == "'":
        return b':\x8f' + tok       # ' is stored as :REM'
    return tok


# ---------------------------------------------------------------------------------------------
# number literals

def _strip_mant(mant, exp10):
    assert mant > 0
    while mant % 10 == 0:
        mant //= 10
        exp10 += 1
    return mant, exp10


def float_value(mant, exp10):
    return Fraction(mant) * Fraction(10) ** exp10


def float_ok(mant, exp10, size):
    """Literal mant*10^exp10 is exactly representable in `size` bytes with <= 7/16 digits."""
    if mant <= 0:
        return False
    mant, exp10 = _strip_mant(mant, exp10)
    if len(str(mant)) > (7 if size == 4 else 16):
        return False
    if abs(exp10) > 45:
        return False
    return mbf.representable(float_value(mant, exp10), size)


def float_canon(mant, exp10, size):
    """Text the lister shows for an exactly representable float literal (GW-BASIC conventions)."""
    mant, exp10 = _strip_mant(mant, exp10)
    ds = str(mant)
    k = len(ds)
    prec = 7 if size == 4 else 16
    e = exp10 + k - 1               # decimal exponent of the leading digit
    if e > prec - 1 or k - e > prec + 1:
        out = ds[0] + ('.' + ds[1:] if k > 1 else '')
        out += ('E' if size == 4 else 'D') + ('-' if e < 0 else '+') + '%02d' % abs(e)
        return out
    sig = '!' if size == 4 else '#'
    if e >= k - 1:
        return ds + '0' * (e - k + 1) + sig
    if e >= 0:
        out = ds[:e + 1] + '.' + ds[e + 1:]
    else:
        out = '.' + '0' * (-e - 1) + ds
    return out + ('#' if size == 8 else '')


def _plain_decimal(mant, exp10):
    ds = str(mant)
    if exp10 >= 0:
        return ds + '0' * exp10, False
    if -exp10 >= len(ds):
        return '.' + '0' * (-exp10 - len(ds)) + ds, True
    return ds[:exp10] + '.' + ds[exp10:], True


def float_entered(mant, exp10, size, form):
    """One of several spellings of the same literal that must tokenise to the same token."""
    mant, exp10 = _strip_mant(mant, exp10)
    form %= 8
    if form == 0:
        return float_canon(mant, exp10, size)
    plain, has_point = _plain_decimal(mant, exp10)
    ndig = len(plain.replace('.', '').lstrip('0'))
    sig = '!' if size == 4 else '#'
    if form in (1, 2, 3, 4):
        txt = plain
        if form == 2 and has_point:
            txt = '0' + txt if txt.startswith('.') else txt
        if form == 3 and has_point and ndig + 2 <= (7 if size == 4 else 16):
            # trailing zeros, but never more digits than the type holds
            txt = txt + '00'
        if form == 4:
            txt = '0' + txt
        if len(txt) <= 24:
            if size == 4:
                # without a sigil: single iff not a pure integer below 32768 and <= 7 digits
                # (trailing zeros behind the point do not count)
                if has_point and ndig <= 7 and form != 1:
                    return txt
                return txt + sig
            if ndig >= 8 and form != 1 and not (has_point and form == 3):
                return txt
            return txt + sig
    # exponent forms
    letter = 'E' if size == 4 else 'D'
    if form in (5, 1, 2, 3, 4):
        return '%d%s%s%d' % (mant, letter.lower() if form == 5 else letter,
                             '-' if exp10 < 0 else '+', abs(exp10))
    ds = str(mant)
    e = exp10 + len(ds) - 1
    if form == 6:
        m = ds[0] + '.' + ds[1:] if len(ds) > 1 else ds
        return '%s%s%s%02d' % (m, letter, '-' if e < 0 else '+', abs(e))
    # form 7: .ddddE(e+1) without sign when non-negative
    e1 = e + 1
    return '.%s%s%s%d' % (ds, letter, '-' if e1 < 0 else '', abs(e1))


def number_parts(a, syntax='advanced'):
    """-> (entered, canon, tokens) for a number atom."""
    cls = a[1]
    if cls == 'd':
        v = a[2]
        assert 0 <= v <= 9
        return str(v), str(v), bytes([0x11 + v])
    if cls == 'b':
        v = a[2]
        assert 10 <= v <= 255
        return str(v), str(v), bytes([0x0f, v])
    if cls == 'i':
        v = a[2]
        assert 256 <= v <= 32767
        return str(v), str(v), bytes([0x1c, v & 0xff, v >> 8])
    if cls == 'h':
        v, form = a[2], a[3] % 3
        assert 0 <= v <= 0xffff
        can = '&H%X' % v
        ent = (can, '&h%x' % v, '&H%04X' % v)[form]
        return ent, can, bytes([0x0c, v & 0xff, v >> 8])
    if cls == 'o':
        v, form = a[2], a[3] % 3
        assert 0 <= v <= 0xffff
        can = '&O%o' % v
        ent = (can, '&%o' % v, '&o%o' % v)[form]
        return ent, can, bytes([0x0b, v & 0xff, v >> 8])
    if cls in ('s', 'f'):
        size = 4 if cls == 's' else 8
        mant, exp10, form = a[2], a[3], a[4]
        assert float_ok(mant, exp10, size), a
        return (float_entered(mant, exp10, size, form), float_canon(mant, exp10, size),
                bytes([0x1d if size == 4 else 0x1f]) + mbf.encode_value(float_value(mant, exp10),
                                                                        size))
    raise ValueError(a)


# ---------------------------------------------------------------------------------------------
# rendering

def render(atoms, syntax='advanced'):
    """atoms -> (entered bytes, canonical listing bytes, token bytes) of the line body."""
    ent, can, tok = [], [], []
    for a in atoms:
        t = a[0]
        if t == 'k':
            word, mask = a[1], a[2]
            can.append(word)
            ent.append('?' if (mask == -1 and word == 'PRINT') else apply_mask(word, max(mask, 0)))
            tok.append(keyword_tokens(word, syntax))
            continue
        elif t == 'o':
            e = c = a[1]
            k = _TABLES[syntax][a[1]]
        elif t == 'p':
            e = c = a[1]
            k = a[1].encode('latin-1')
        elif t == 'v':
            c = a[1].upper()
            e = apply_mask(c, a[2])
            k = c.encode('latin-1')
        elif t == 's':
            e = c = '"' + a[1] + ('"' if a[2] else '')
            k = c.encode('latin-1')
        elif t == 'n':
            e, c, k = number_parts(a, syntax)
        elif t == 'j':
            # values above 65529 are symbolic codes of a caller (C14): widest number as placeholder
            n = a[1] if 0 <= a[1] <= 65529 else 65529
            e = c = str(n)
            k = bytes([0x0e, n & 0xff, n >> 8])
        elif t == 'sp':
            e = c = ' ' * a[1]
            k = e.encode()
        elif t == 'rem':
            style, mask, text = a[1], a[2], a[3]
            c = style + text
            e = apply_mask(style, mask) + text
            k = keyword_tokens(style, syntax) + text.encode('latin-1')
        elif t == 'data':
            c = 'DATA' + a[2]
            e = apply_mask('DATA', a[1]) + a[2]
            k = _TABLES[syntax]['DATA'] + a[2].encode('latin-1')
        else:
            raise ValueError(a)
        ent.append(e)
        can.append(c)
        tok.append(k)
    return (''.join(ent).encode('latin-1'), ''.join(can).encode('latin-1'), b''.join(tok))


def classes(atoms):
    """Set of token classes in a line (for the non-trivial rule and the histogram)."""
    out = set()
    for a in atoms:
        t = a[0]
        if t == 'n':
            out.add({'d': 'digit', 'b': 'byte', 'i': 'int', 'h': 'hex', 'o': 'oct', 's': 'single',
                     'f': 'double'}[a[1]])
            if a[1] in ('s', 'f'):
                txt = float_entered(a[2], a[3], 4 if a[1] == 's' else 8, a[4])
                if 'E' in txt.upper() or 'D' in txt.upper():
                    out.add('exponent')
        elif t == 'k':
            out.add('keyword')
        elif t == 'o':
            out.add('operator')
        elif t == 'v':
            out.add('name')
        elif t == 's':
            out.add('string')
        elif t == 'j':
            out.add('jump')
        elif t == 'rem':
            out.add('comment')
        elif t == 'data':
            out.add('data')
    return out


# what may follow a reserved word without the lister inserting a blank
_NO_SPACE_AFTER_KW = set(' ,;:()$%!#"')
_GLUE_AFTER = ('FN', 'USR', 'TAB(', 'SPC(')


def _first_char(a):
    t = a[0]
    if t == 'k':
        return a[1][0] if a[1] != "'" else ':'
    if t in ('o', 'p', 'v'):
        return a[1][0] if a[1] else ''
    if t == 's':
        return '"'
    if t == 'n':
        return number_parts(a)[1][0]
    if t == 'j':
        return '0'
    if t == 'sp':
        return ' '
    if t == 'rem':
        return ':' if a[1] == "'" else 'R'
    if t == 'data':
        return 'D'
    return ''


def _last_char(a):
    t = a[0]
    if t in ('k', 'o', 'p', 'v'):
        return a[1][-1] if a[1] else ''
    if t == 's':
        return '"'
    if t == 'n':
        return number_parts(a)[1][-1]
    if t == 'j':
        return '0'
    if t == 'sp':
        return ' '
    return ''


def _wordy(a):
    return a[0] in ('k', 'v', 'n', 'j', 'rem', 'data') and not (a[0] == 'rem' and a[1] == "'")


def canonical(atoms):
    """
    Insert the blanks that make a line canonical: reserved words are separated from neighbouring
    words and numbers by a blank (the lister would otherwise insert one that is not in the token
    stream).  Blanks behind an octal literal are not stored by GW-BASIC; they are dropped here.
    """
    out = []
    for a in atoms:
        if out:
            prev = out[-1]
            if a[0] == 'sp' and prev[0] == 'n' and prev[1] == 'o':
                continue
            need = False
            if prev[0] == 'k' and prev[1] not in OPERATOR_SYMBOLS and prev[1] not in _GLUE_AFTER:
                fc = _first_char(a)
                if a[0] == 'o' or fc in _NO_SPACE_AFTER_KW or fc == '':
                    need = False
                else:
                    need = True
            if not need and a[0] in ('k', 'rem', 'data') and _wordy(a) and (
                    _last_char(prev).isalnum() or _last_char(prev) in '.$%!#'):
                if not (prev[0] == 'k' and prev[1] in ('TAB(', 'SPC(')):
                    need = True
            if not need and _wordy(prev) and _wordy(a) and not (
                    prev[0] == 'k' and prev[1] in _GLUE_AFTER):
                need = True
            if need:
                out.append(['sp', 1])
        out.append(a)
    # an octal literal must not be followed by a word (the lister would add a blank that the
    # tokeniser drops again): keep it canonical by wrapping nothing -- callers put octals in
    # brackets; assert that here
    for i, a in enumerate(out[:-1]):
        if a[0] == 'n' and a[1] == 'o':
            assert out[i + 1][0] in ('p', 'o'), out
    return out


# ---------------------------------------------------------------------------------------------
# Hypothesis strategies

NAMES_NUM = ['A', 'B', 'I', 'J', 'K', 'N', 'X', 'Y', 'Z9', 'AB', 'N1', 'COUNT', 'TOTAL.X', 'X2Y',
             'A%', 'I%', 'B!', 'C#', 'Q.R', 'FORK', 'TOP', 'ANDY', 'LETTER', 'IFF', 'ONE']
NAMES_STR = ['A$', 'B$', 'S$', 'NM$', 'Q.R$', 'T1$', 'LINE1$', 'MIDDLE$']
NAMES_ARR = ['A', 'B', 'M', 'ARR', 'T%', 'V#', 'W!']
NAMES_SARR = ['A$', 'L$', 'TXT$']


def _check_names():
    allkw = set(ALL_WORDS)
    for n in NAMES_NUM + NAMES_STR + NAMES_ARR + NAMES_SARR:
        base = n.rstrip('$%!#')
        assert n not in allkw and base not in allkw, n
        assert not base.startswith(('FN', 'USR', 'GO')), n


_check_names()

_STR_CHARS = [chr(c) for c in range(0x20, 0x7f) if c != 0x22] + [chr(c) for c in range(0x80, 0x100)]
_REM_CHARS = [chr(c) for c in range(0x20, 0x7f)] + [chr(c) for c in range(0x80, 0x100)]
_DATA_CHARS = [chr(c) for c in range(0x20, 0x7f) if chr(c) not in ':"']

# exactly representable float literals are built from a binary fraction m / 2^k (few digits) or
# an integer times a power of ten
_SINGLES = None
_DOUBLES = None


def _float_pool(size):
    """A deterministic pool of (mant, exp10) pairs satisfying float_ok."""
    pool = []
    prec = 7 if size == 4 else 16
    # m / 2^k
    for k in range(0, 12 if size == 4 else 30):
        for m in (1, 3, 5, 7, 9, 11, 13, 15, 17, 25, 33, 63, 65, 77, 99, 101, 127, 129, 255, 257,
                  511, 513, 1023, 1025, 4095, 4097, 12345, 32767, 32769, 65535, 65537, 99999,
                  131071, 262145, 999999, 1048577, 8388607, 9999999, 16777215,
                  123456789, 4294967295, 4294967297, 999999999999, 72057594037927935):
            fr = Fraction(m, 2 ** k)
            # decimal expansion of m/2^k = m*5^k / 10^k
            mant, e10 = m * 5 ** k, -k
            if float_ok(mant, e10, size):
                pool.append(_strip_mant(mant, e10))
            del fr
    # m * 10^e
    for e in range(0, 28):
        for m in (1, 2, 3, 4, 5, 6, 7, 8, 9, 11, 12, 15, 16, 25, 32, 33, 64, 99, 125, 128, 256,
                  512, 625, 1024, 3125, 4096, 32768, 65536, 1234567, 9999999, 1677721, 8388608,
                  123456789012345, 9999999999999999, 36028797018963968, 1125899906842624):
            if float_ok(m, e, size):
                pool.append(_strip_mant(m, e))
    # small negative powers of ten times powers of two: e.g. 2^20 / 10^0 ...
    for k in range(1, 120, 7):
        for m in (1, 3, 5):
            v = m * 2 ** k
            if len(str(v).rstrip('0')) <= prec and float_ok(v, 0, size):
                pool.append(_strip_mant(v, 0))
    out = sorted(set(pool))
    # a float literal must not be spelt like an integer literal unless it carries a sigil or an
    # exponent: handled by float_entered
    return out


def single_pool():
    global _SINGLES
    if _SINGLES is None:
        _SINGLES = _float_pool(4)
    return _SINGLES


def double_pool():
    global _DOUBLES
    if _DOUBLES is None:
        _DOUBLES = _float_pool(8)
    return _DOUBLES


def st_mask(word):
    n = len(word)
    return st.one_of(st.just(0), st.just(0), st.just((1 << n) - 1), st.integers(0, (1 << n) - 1))


def st_kw(word):
    return st_mask(word).map(lambda m: ['k', word, m])


def st_single():
    """Single literal: pool entries and freshly constructed m/2^k and integers."""
    def build(choice, m, k, form):
        if choice == 0:
            mant, e10 = m * 5 ** k, -k
        elif choice == 1:
            mant, e10 = m, 0
        else:
            mant, e10 = m % 9999 + 1, k % 8
        if not float_ok(mant, e10, 4):
            pool = single_pool()
            mant, e10 = pool[(m * 31 + k) % len(pool)]
        mant, e10 = _strip_mant(mant, e10)
        return ['n', 's', mant, e10, form]
    return st.builds(build, st.integers(0, 3), st.integers(1, 9999999), st.integers(0, 10),
                     st.integers(0, 7))


def st_double():
    def build(choice, m, k, form):
        if choice == 0:
            mant, e10 = m * 5 ** k, -k
        elif choice == 1:
            mant, e10 = m, 0
        else:
            mant, e10 = m % 99999 + 1, k % 20
        if not float_ok(mant, e10, 8):
            pool = double_pool()
            mant, e10 = pool[(m * 31 + k) % len(pool)]
        mant, e10 = _strip_mant(mant, e10)
        return ['n', 'f', mant, e10, form]
    return st.builds(build, st.integers(0, 3),
                     st.one_of(st.integers(1, 99999), st.integers(1, 9999999999999999)),
                     st.integers(0, 24), st.integers(0, 7))


def st_intlit():
    return st.one_of(
        st.integers(0, 9).map(lambda v: ['n', 'd', v]),
        st.one_of(st.integers(10, 255), st.sampled_from([10, 11, 99, 100, 254, 255])).map(
            lambda v: ['n', 'b', v]),
        st.one_of(st.integers(256, 32767), st.sampled_from([256, 257, 999, 1000, 32766, 32767])).map(
            lambda v: ['n', 'i', v]),
    )


def st_hex():
    return st.tuples(st.one_of(st.integers(0, 0xffff), st.sampled_from([0, 9, 10, 255, 0x7fff,
                                                                         0x8000, 0xffff])),
                     st.integers(0, 2)).map(lambda t: ['n', 'h', t[0], t[1]])


def st_oct():
    return st.tuples(st.one_of(st.integers(0, 0xffff), st.sampled_from([0, 7, 8, 0o177777])),
                     st.integers(0, 2)).map(lambda t: ['n', 'o', t[0], t[1]])


def st_string(maxlen=12):
    body = st.text(alphabet=st.sampled_from(_STR_CHARS), max_size=maxlen)
    return body.map(lambda s: ['s', s, True])


def st_jump():
    return st.one_of(
        st.integers(0, 65529),
        st.sampled_from([0, 1, 9, 10, 100, 255, 256, 1000, 6552, 6553, 9999, 10000, 32767, 32768,
                         65528, 65529]),
    ).map(lambda n: ['j', n])


P = lambda c: ['p', c]          # noqa: E731
O = lambda c: ['o', c]          # noqa: E731
SP = ['sp', 1]


class _B(object):
    """Grammar builder around a Hypothesis draw function."""

    def __init__(self, draw, syntax, jumps=None):
        self.draw = draw
        self.syntax = syntax
        self.jumps = jumps      # optional strategy for jump targets (C13/C14 use their own)
        self.noq = False        # inside a THEN/ELSE clause: do not type PRINT as '?'

    # -- helpers
    def kw(self, word):
        return self.draw(st_kw(word))

    def osp(self):
        """Optional blank(s)."""
        n = self.draw(st.sampled_from([0, 0, 0, 1, 1, 2]))
        return [['sp', n]] if n else []

    def name(self, pool):
        n = self.draw(st.sampled_from(pool))
        m = self.draw(st_mask(n))
        return ['v', n, m]

    def word(self, w):
        return ['v', w, self.draw(st_mask(w))]

    def jump(self):
        return self.draw(self.jumps if self.jumps is not None else st_jump())

    def comma(self):
        return [P(',')] + self.osp()

    # -- expressions
    def number(self):
        c = self.draw(st.integers(0, 11))
        if c <= 4:
            return [self.draw(st_intlit())]
        if c <= 6:
            return [self.draw(st_single())]
        if c <= 8:
            return [self.draw(st_double())]
        if c == 9:
            return [self.draw(st_hex())]
        if c == 10:
            # octal literals swallow following blanks: always bracketed
            return [P('('), self.draw(st_oct()), P(')')]
        return [self.draw(st_intlit())]

    def numleaf(self):
        c = self.draw(st.integers(0, 9))
        if c <= 4:
            return self.number()
        if c <= 7:
            return [self.name(NAMES_NUM)]
        if c == 8:
            return [self.name(NAMES_ARR), P('(')] + self.num(0) + [P(')')]
        w = self.draw(st.sampled_from(['RND', 'TIMER', 'CSRLIN', 'ERR', 'ERDEV', 'INKEY$']))
        if w == 'INKEY$':
            return [self.kw('LEN'), P('('), self.kw('INKEY$'), P(')')]
        return [self.kw(w)]

    NUMFN1 = ['SGN', 'INT', 'ABS', 'SQR', 'RND', 'SIN', 'LOG', 'EXP', 'COS', 'TAN', 'ATN', 'FRE',
              'INP', 'POS', 'PEEK', 'LPOS', 'CINT', 'CSNG', 'CDBL', 'FIX', 'PEN', 'STICK', 'STRIG',
              'EOF', 'LOC', 'LOF', 'EXTERR', 'USR', 'VARPTR', 'PLAY']
    NUMFN_S = ['LEN', 'VAL', 'ASC', 'CVI', 'CVS', 'CVD']
    STRFN_N = ['STR$', 'CHR$', 'SPACE$', 'OCT$', 'HEX$', 'MKI$', 'MKS$', 'MKD$']
    BINWORDS = ['AND', 'OR', 'XOR', 'EQV', 'IMP', 'MOD']
    BINSYMS = ['+', '-', '*', '/', '\\', '^', '=', '<', '>', '<>', '<=', '>=', '=<', '=>', '><']

    def num(self, depth):
        if depth <= 0:
            return self.numleaf()
        c = self.draw(st.integers(0, 11))
        if c <= 2:
            return self.numleaf()
        if c <= 4:
            sym = self.draw(st.sampled_from(self.BINSYMS))
            s1, s2 = self.osp(), self.osp()
            return self.num(depth - 1) + s1 + [O(ch) for ch in sym] + s2 + self.num(depth - 1)
        if c == 5:
            w = self.draw(st.sampled_from(self.BINWORDS))
            return self.num(depth - 1) + [SP, self.kw(w), SP] + self.num(depth - 1)
        if c == 6:
            return [P('(')] + self.num(depth - 1) + [P(')')]
        if c == 7:
            if self.draw(st.booleans()):
                return [O('-')] + self.num(depth - 1)
            return [self.kw('NOT'), SP] + self.num(depth - 1)
        if c == 8:
            f = self.draw(st.sampled_from(self.NUMFN1))
            if f == 'USR' and self.draw(st.booleans()):
                return [self.kw('USR'), ['n', 'd', self.draw(st.integers(0, 9))], P('(')] + \
                    self.num(depth - 1) + [P(')')]
            if f == 'VARPTR':
                return [self.kw(f), P('('), self.name(NAMES_NUM), P(')')]
            return [self.kw(f), P('(')] + self.num(depth - 1) + [P(')')]
        if c == 9:
            f = self.draw(st.sampled_from(self.NUMFN_S))
            return [self.kw(f), P('(')] + self.str(depth - 1) + [P(')')]
        if c == 10:
            c2 = self.draw(st.integers(0, 4))
            if c2 == 0:
                return [self.kw('INSTR'), P('(')] + self.str(0) + self.comma() + self.str(0) + [P(')')]
            if c2 == 1:
                return [self.kw('POINT'), P('(')] + self.num(0) + self.comma() + self.num(0) + [P(')')]
            if c2 == 2:
                return [self.kw('PMAP'), P('(')] + self.num(0) + self.comma() + self.num(0) + [P(')')]
            if c2 == 3:
                return [self.kw('SCREEN'), P('(')] + self.num(0) + self.comma() + self.num(0) + [P(')')]
            return [self.kw('FN'), self.name(['A', 'B2', 'SQ', 'X.Y', 'R%']), P('(')] + \
                self.num(depth - 1) + [P(')')]
        return self.numleaf()

    def strleaf(self):
        c = self.draw(st.integers(0, 5))
        if c <= 2:
            return [self.draw(st_string())]
        if c <= 4:
            return [self.name(NAMES_STR)]
        w = self.draw(st.sampled_from(['INKEY$', 'DATE$', 'TIME$']))
        return [self.kw(w)]

    def str(self, depth):
        if depth <= 0:
            return self.strleaf()
        c = self.draw(st.integers(0, 9))
        if c <= 3:
            return self.strleaf()
        if c == 4:
            return self.str(depth - 1) + self.osp() + [O('+')] + self.osp() + self.str(depth - 1)
        if c == 5:
            f = self.draw(st.sampled_from(self.STRFN_N))
            return [self.kw(f), P('(')] + self.num(depth - 1) + [P(')')]
        if c == 6:
            f = self.draw(st.sampled_from(['LEFT$', 'RIGHT$']))
            return [self.kw(f), P('(')] + self.str(depth - 1) + self.comma() + self.num(0) + [P(')')]
        if c == 7:
            r = [self.kw('MID$'), P('(')] + self.str(depth - 1) + self.comma() + self.num(0)
            if self.draw(st.booleans()):
                r += self.comma() + self.num(0)
            return r + [P(')')]
        if c == 8:
            return [self.kw('STRING$'), P('(')] + self.num(0) + self.comma() + (
                self.num(0) if self.draw(st.booleans()) else self.str(0)) + [P(')')]
        c2 = self.draw(st.integers(0, 3))
        if c2 == 0:
            return [self.kw('ENVIRON'), P('$'), P('(')] + self.str(0) + [P(')')]
        if c2 == 1:
            return [self.kw('INPUT'), P('$'), P('(')] + self.num(0) + [P(')')]
        if c2 == 2:
            return [self.kw('IOCTL'), P('$'), P('('), P('#')] + self.num(0) + [P(')')]
        return [self.kw('ERDEV'), P('$')]

    def expr(self, depth=1):
        return self.num(depth) if self.draw(st.integers(0, 3)) else self.str(depth)

    def lvalue(self, string=False):
        if self.draw(st.integers(0, 3)) == 0:
            return [self.name(NAMES_SARR if string else NAMES_ARR), P('(')] + self.num(0) + [P(')')]
        return [self.name(NAMES_STR if string else NAMES_NUM)]

    def coord(self, nostep=False):
        step = [self.kw('STEP')] if (not nostep and self.draw(st.integers(0, 4)) == 0) else []
        return step + [P('(')] + self.num(0) + self.comma() + self.num(0) + [P(')')]

    def filenum(self):
        return [P('#')] + self.num(0)

    def numlist(self, lo, hi, allow_empty=False):
        n = self.draw(st.integers(lo, hi))
        out = []
        for i in range(n):
            if i:
                out += self.comma()
            if allow_empty and i and self.draw(st.integers(0, 5)) == 0:
                continue
            out += self.num(0)
        return out

    # -- statements
    def simple_statement(self):
        """One statement that does not take line numbers."""
        kw, d = self.kw, self.draw
        c = d(st.integers(0, 61))
        if c == 0:
            pre = [kw('LET'), SP] if d(st.booleans()) else []
            return pre + self.lvalue() + self.osp() + [O('=')] + self.osp() + self.num(2)
        if c == 1:
            return self.lvalue(True) + self.osp() + [O('=')] + self.osp() + self.str(2)
        if c in (2, 3, 4):
            head = [d(st.one_of(st_kw('PRINT'), st_kw('PRINT'), st.just(['k', 'PRINT', -1]),
                                st_kw('LPRINT')))]
            if d(st.integers(0, 5)) == 0:
                head += [SP] + self.filenum() + [P(',')]
            n = d(st.integers(0, 4))
            items = []
            for i in range(n):
                c2 = d(st.integers(0, 7))
                if c2 == 0:
                    items += [kw('TAB(')] + self.num(0) + [P(')')]
                elif c2 == 1:
                    items += [kw('SPC(')] + self.num(0) + [P(')')]
                else:
                    items += self.expr(1)
                if i < n - 1 or d(st.integers(0, 3)) == 0:
                    items += [P(d(st.sampled_from([';', ';', ',', '; ', ', '])))]
            if d(st.integers(0, 6)) == 0:
                items = [kw('USING'), SP] + self.str(0) + [P(';')] + self.osp() + self.numlist(1, 3)
            return head + ([SP] if items else []) + items
        if c == 5:
            return [kw('FOR'), SP, self.name(NAMES_NUM), O('=')] + self.num(1) + \
                [SP, kw('TO'), SP] + self.num(1) + (
                    [SP, kw('STEP'), SP] + self.num(0) if d(st.booleans()) else [])
        if c == 6:
            r = [kw('NEXT')]
            n = d(st.integers(0, 2))
            for i in range(n):
                r += [SP if i == 0 else P(','), self.name(NAMES_NUM)]
            return r
        if c == 7:
            return [kw('WHILE'), SP] + self.num(1)
        if c == 8:
            return [kw(d(st.sampled_from(['WEND', 'CLS', 'BEEP', 'END', 'STOP', 'CONT', 'TRON', 'TROFF',
                                          'NEW', 'SYSTEM', 'RESET', 'LCOPY', 'FILES', 'SHELL',
                                          'RANDOMIZE', 'CLOSE', 'CLEAR', 'KEY'])))]
        if c == 9:
            r = [kw('DIM'), SP]
            n = d(st.integers(1, 3))
            for i in range(n):
                if i:
                    r += self.comma()
                r += [self.name(NAMES_ARR + NAMES_SARR), P('(')] + self.numlist(1, 2) + [P(')')]
            return r
        if c == 10:
            r = [kw('READ'), SP]
            for i in range(d(st.integers(1, 3))):
                if i:
                    r += self.comma()
                r += self.lvalue(d(st.booleans()))
            return r
        if c == 11:
            r = [kw('INPUT'), SP]
            c2 = d(st.integers(0, 3))
            if c2 == 0:
                r += [P(';')]
            if c2 <= 1:
                r += [d(st_string()), P(d(st.sampled_from([';', ','])))] + self.osp()
            elif c2 == 2:
                r += self.filenum() + self.comma()
            return r + self.lvalue(d(st.booleans()))
        if c == 12:
            r = [kw('LINE'), SP, kw('INPUT'), SP]
            if d(st.booleans()):
                r += self.filenum() + self.comma()
            return r + self.lvalue(True)
        if c == 13:
            return [kw('LOCATE'), SP] + self.numlist(1, 5, allow_empty=True)
        if c == 14:
            return [kw('COLOR'), SP] + self.numlist(1, 3, allow_empty=True)
        if c == 15:
            return [kw('SCREEN'), SP] + self.numlist(1, 4, allow_empty=True)
        if c == 16:
            w = d(st.sampled_from(['POKE', 'OUT', 'SOUND', 'PCOPY', 'PALETTE']))
            return [kw(w), SP] + self.numlist(2, 2)
        if c == 17:
            return [kw('WAIT'), SP] + self.numlist(2, 3)
        if c == 18:
            w = d(st.sampled_from(['WIDTH', 'ERROR', 'MOTOR', 'RANDOMIZE', 'CLEAR']))
            if w == 'CLEAR':
                return [kw(w), SP, P(',')] + self.numlist(1, 2)
            return [kw(w), SP] + self.num(1)
        if c == 19:
            return [kw('WIDTH'), SP] + self.str(0) + self.comma() + self.num(0)
        if c == 20:
            w = d(st.sampled_from(['PSET', 'PRESET']))
            return [kw(w), SP] + self.coord() + ([P(',')] + self.num(0) if d(st.booleans()) else [])
        if c == 21:
            r = [kw('LINE'), SP]
            if d(st.integers(0, 3)):
                r += self.coord()
            r += [O('-')] + self.coord()
            c2 = d(st.integers(0, 4))
            if c2 >= 1:
                r += [P(',')] + (self.num(0) if d(st.booleans()) else [])
            if c2 >= 2:
                r += [P(','), self.word(d(st.sampled_from(['B', 'BF'])))]
            if c2 >= 4:
                r += [P(',')] + self.num(0)
            return r
        if c == 22:
            r = [kw('CIRCLE'), SP] + self.coord() + [P(',')] + self.num(0)
            for _ in range(d(st.integers(0, 4))):
                r += [P(',')] + (self.num(0) if d(st.integers(0, 2)) else [])
            return r
        if c == 23:
            return [kw('PAINT'), SP] + self.coord() + (
                [P(',')] + self.expr(0) if d(st.booleans()) else [])
        if c == 24:
            w = d(st.sampled_from(['DRAW', 'PLAY', 'KILL', 'MKDIR', 'CHDIR', 'RMDIR', 'SHELL', 'FILES',
                                   'ENVIRON', 'LOAD', 'MERGE', 'SAVE', 'CHAIN', 'RUN']))
            r = [kw(w), SP] + self.str(1)
            if w in ('LOAD',) and d(st.booleans()):
                r += [P(','), self.word('R')]
            if w == 'SAVE' and d(st.booleans()):
                r += [P(','), self.word(d(st.sampled_from(['A', 'P'])))]
            if w == 'CHAIN' and d(st.booleans()):
                r = [r[0], SP, kw('MERGE'), SP] + r[2:] + [P(',')] + self.num(0) + [
                    P(','), self.word('ALL'), P(','), kw('DELETE'), SP, self.jump(), O('-'),
                    self.jump()]
            return r
        if c == 25:
            return [kw('NAME'), SP] + self.str(0) + [SP, self.word('AS'), SP] + self.str(0)
        if c == 26:
            r = [kw('OPEN'), SP] + self.str(0) + [SP]
            c2 = d(st.integers(0, 4))
            if c2 == 0:
                r += [kw('FOR'), SP, kw('INPUT'), SP]
            elif c2 == 1:
                r += [kw('FOR'), SP, self.word(d(st.sampled_from(['OUTPUT', 'APPEND', 'RANDOM']))), SP]
            if d(st.integers(0, 3)) == 0:
                r += [self.word('ACCESS'), SP, kw(d(st.sampled_from(['READ', 'WRITE']))), SP]
            if d(st.integers(0, 3)) == 0:
                r += [d(st.one_of(st.just(['v', 'SHARED', 0]), st_kw('LOCK')))]
                if r[-1][0] == 'k':
                    r += [SP, kw(d(st.sampled_from(['READ', 'WRITE'])))]
                r += [SP]
            r += [self.word('AS'), SP] + self.filenum()
            if d(st.integers(0, 2)) == 0:
                r += [SP, kw('LEN'), O('=')] + self.num(0)
            return r
        if c == 27:
            return [kw('OPEN'), SP] + self.str(0) + self.comma() + self.filenum() + self.comma() + \
                self.str(0) + (self.comma() + self.num(0) if d(st.booleans()) else [])
        if c == 28:
            r = [kw('CLOSE'), SP]
            for i in range(d(st.integers(1, 3))):
                if i:
                    r += self.comma()
                r += (self.filenum() if d(st.booleans()) else self.num(0))
            return r
        if c == 29:
            r = [kw('FIELD'), SP] + self.filenum()
            for i in range(d(st.integers(1, 3))):
                r += self.comma() + self.num(0) + [SP, self.word('AS'), SP] + self.lvalue(True)
            return r
        if c == 30:
            w = d(st.sampled_from(['GET', 'PUT']))
            r = [kw(w), SP] + self.filenum()
            if d(st.booleans()):
                r += self.comma() + self.num(0)
            return r
        if c == 31:
            r = [kw('GET'), SP] + self.coord() + [O('-')] + self.coord() + [P(','),
                                                                           self.name(NAMES_ARR)]
            return r
        if c == 32:
            r = [kw('PUT'), SP] + self.coord() + [P(','), self.name(NAMES_ARR)]
            if d(st.booleans()):
                r += [P(','), kw(d(st.sampled_from(['PSET', 'PRESET', 'AND', 'OR', 'XOR'])))]
            return r
        if c == 33:
            w = d(st.sampled_from(['LSET', 'RSET']))
            return [kw(w), SP] + self.lvalue(True) + [O('=')] + self.str(1)
        if c == 34:
            r = [kw('MID$'), P('(')] + self.lvalue(True) + self.comma() + self.num(0)
            if d(st.booleans()):
                r += self.comma() + self.num(0)
            return r + [P(')'), O('=')] + self.str(1)
        if c == 35:
            w = d(st.sampled_from(['DATE$', 'TIME$']))
            return [kw(w), O('=')] + self.str(1)
        if c == 36:
            r = [kw('WRITE')]
            if d(st.booleans()):
                r += [SP] + self.filenum() + [P(',')]
            else:
                r += [SP]
            for i in range(d(st.integers(1, 3))):
                if i:
                    r += self.comma()
                r += self.expr(0)
            return r
        if c == 37:
            r = [kw('SWAP'), SP]
            s = d(st.booleans())
            return r + self.lvalue(s) + self.comma() + self.lvalue(s)
        if c == 38:
            r = [kw('ERASE'), SP]
            for i in range(d(st.integers(1, 3))):
                if i:
                    r += self.comma()
                r += [self.name(NAMES_ARR + NAMES_SARR)]
            return r
        if c == 39:
            return [kw('OPTION'), SP, self.word('BASE'), SP, P(d(st.sampled_from(['0', '1'])))]
        if c == 40:
            w = d(st.sampled_from(['DEFINT', 'DEFSNG', 'DEFDBL', 'DEFSTR']))
            r = [kw(w), SP]
            for i in range(d(st.integers(1, 3))):
                if i:
                    r += [P(',')]
                a = d(st.sampled_from('ABCHIJKLMXYZ'))
                r += [['v', a, 0]]
                if d(st.booleans()):
                    r += [O('-'), ['v', d(st.sampled_from('MNPQRSTZ')), 0]]
            return r
        if c == 41:
            r = [kw('DEF'), SP, kw('FN'), self.name(['A', 'B2', 'SQ', 'X.Y', 'R%', 'S$'])]
            if d(st.booleans()):
                r += [P('('), self.name(NAMES_NUM)]
                if d(st.booleans()):
                    r += [P(','), self.name(NAMES_NUM)]
                r += [P(')')]
            return r + [O('=')] + self.num(2)
        if c == 42:
            if d(st.booleans()):
                return [kw('DEF'), SP, self.word('SEG')] + (
                    [O('=')] + self.num(0) if d(st.booleans()) else [])
            return [kw('DEF'), SP, kw('USR'), ['n', 'd', d(st.integers(0, 9))], O('=')] + self.num(0)
        if c == 43:
            w = d(st.sampled_from(['CALL', 'CALLS']))
            r = [kw(w), SP, self.name(NAMES_NUM)]
            if d(st.booleans()):
                r += [P('(')] + [self.name(NAMES_NUM)] + [P(')')]
            return r
        if c == 44:
            r = [kw('COMMON'), SP]
            for i in range(d(st.integers(1, 3))):
                if i:
                    r += self.comma()
                r += [self.name(NAMES_NUM + NAMES_STR)]
                if d(st.integers(0, 3)) == 0:
                    r += [P('('), P(')')]
            return r
        if c == 45:
            w = d(st.sampled_from(['KEY', 'PEN', 'STRIG', 'COM', 'TIMER', 'PLAY']))
            act = kw(d(st.sampled_from(['ON', 'OFF', 'STOP'])))
            if w in ('KEY', 'COM') or (w == 'STRIG' and d(st.booleans())):
                return [kw(w), P('(')] + self.num(0) + [P(')'), SP, act]
            return [kw(w), SP, act]
        if c == 46:
            c2 = d(st.integers(0, 2))
            if c2 == 0:
                return [kw('KEY'), SP, kw(d(st.sampled_from(['ON', 'OFF', 'LIST'])))]
            return [kw('KEY'), SP] + self.num(0) + self.comma() + self.str(1)
        if c == 47:
            c2 = d(st.integers(0, 3))
            if c2 == 0:
                return [kw('VIEW'), SP, kw('PRINT')] + (
                    [SP] + self.num(0) + [SP, kw('TO'), SP] + self.num(0) if d(st.booleans()) else [])
            w = d(st.sampled_from(['VIEW', 'WINDOW']))
            r = [kw(w), SP]
            if d(st.booleans()):
                r += [kw('SCREEN'), SP]
            return r + self.coord(True) + [O('-')] + self.coord(True)
        if c == 48:
            return [kw('PALETTE'), SP, kw('USING'), SP, self.name(NAMES_ARR), P('(')] + \
                self.num(0) + [P(')')]
        if c == 49:
            w = d(st.sampled_from(['BLOAD', 'BSAVE']))
            r = [kw(w), SP] + self.str(0)
            if w == 'BSAVE' or d(st.booleans()):
                r += self.comma() + self.num(0)
            if w == 'BSAVE':
                r += self.comma() + self.num(0)
            return r
        if c == 50:
            w = d(st.sampled_from(['LOCK', 'UNLOCK']))
            r = [kw(w), SP] + self.filenum()
            if d(st.booleans()):
                r += self.comma() + self.num(0) + [SP, kw('TO'), SP] + self.num(0)
            return r
        if c == 51:
            return [kw('IOCTL'), SP] + self.filenum() + self.comma() + self.str(0)
        if c == 52 and self.syntax in ('pcjr', 'tandy'):
            if d(st.booleans()):
                return [kw('NOISE'), SP] + self.numlist(3, 3)
            return [kw('TERM')]
        if c == 53:
            # other reserved words in odd but storable positions
            w = d(st.sampled_from(['CVI', 'CVS', 'CVD', 'EXTERR', 'ERDEV', 'LPOS', 'POS', 'CSRLIN']))
            if w in ('CSRLIN', 'ERDEV'):
                return self.lvalue() + [O('=')] + [kw(w)] + self.osp() + [O('+')] + self.num(0)
            arg = self.str(0) if w in ('CVI', 'CVS', 'CVD') else self.num(0)
            return self.lvalue() + [O('=')] + [kw(w), P('(')] + arg + [P(')')]
        if c == 54:
            return [kw('RANDOMIZE'), SP, kw('TIMER')]
        if c == 55:
            return [kw('ENVIRON'), SP] + self.str(1)
        if c == 56:
            return [kw('LOCATE'), SP, P(','), P(',')] + self.num(0)
        # default: assignment with a deeper expression
        return self.lvalue() + [O('=')] + self.num(3)

    def jump_statement(self):
        """A statement that contains line numbers in jump-number context."""
        kw, d = self.kw, self.draw
        c = d(st.integers(0, 17))
        if c <= 1:
            return [kw(d(st.sampled_from(['GOTO', 'GOSUB']))), SP, self.jump()]
        if c == 2:
            w = d(st.sampled_from(['RESTORE', 'RUN', 'RESUME', 'RETURN']))
            if d(st.integers(0, 3)) == 0:
                if w == 'RESUME' and d(st.booleans()):
                    return [kw(w), SP, kw('NEXT')]
                return [kw(w)]
            return [kw(w), SP, self.jump()]
        if c == 3:
            r = [kw('ON'), SP] + self.num(1) + [SP, kw(d(st.sampled_from(['GOTO', 'GOSUB']))), SP]
            for i in range(d(st.integers(1, 5))):
                if i:
                    r += self.comma()
                r += [self.jump()]
            return r
        if c == 4:
            return [kw('ON'), SP, kw('ERROR'), SP, kw('GOTO'), SP,
                    ['j', 0] if d(st.booleans()) else self.jump()]
        if c == 5:
            w = d(st.sampled_from(['KEY', 'TIMER', 'PEN', 'STRIG', 'COM', 'PLAY']))
            r = [kw('ON'), SP, kw(w)]
            if w != 'PEN':
                r += [P('(')] + self.num(0) + [P(')')]
            return r + [SP, kw('GOSUB'), SP, self.jump()]
        if c in (6, 7, 8):
            # IF ... THEN ... [ELSE ...]
            if d(st.integers(0, 3)) == 0:
                cond = [kw('ERL')] + self.osp() + [O(ch) for ch in d(st.sampled_from(
                    ['=', '<>', '<', '>', '>=']))] + self.osp() + [self.jump()]
            else:
                cond = self.num(1)
            r = [kw('IF'), SP] + cond + [SP]
            self.noq = True
            c2 = d(st.integers(0, 3))
            if c2 == 0:
                r += [kw('THEN'), SP, self.jump()]
            elif c2 == 1:
                r += [kw('GOTO'), SP, self.jump()]
            else:
                r += [kw('THEN'), SP] + self.simple_statement()
                if d(st.integers(0, 3)) == 0:
                    r += [P(':')] + self.simple_statement()
            c3 = d(st.integers(0, 3))
            if c3 == 0:
                r += [SP, kw('ELSE'), SP, self.jump()]
            elif c3 == 1:
                r += [SP, kw('ELSE'), SP] + self.simple_statement()
            self.noq = False
            return r
        if c == 9:
            w = d(st.sampled_from(['LIST', 'LLIST', 'DELETE']))
            c2 = d(st.integers(0, 4))
            if c2 == 0:
                return [kw(w), SP, self.jump()]
            if c2 == 1:
                return [kw(w), SP, self.jump(), O('-'), self.jump()]
            if c2 == 2:
                return [kw(w), SP, O('-'), self.jump()]
            if c2 == 3:
                return [kw(w), SP, self.jump(), O('-')]
            return [kw(w), SP, P('.')] if w != 'DELETE' else [kw(w), SP, P('.'), O('-'), self.jump()]
        if c == 10:
            r = [kw('RENUM')]
            n = d(st.integers(0, 3))
            for i in range(n):
                r += [SP if i == 0 else P(',')]
                if i < n - 1 and d(st.integers(0, 3)) == 0:
                    continue
                r += [self.jump()]
            return r
        if c == 11:
            return [kw('EDIT'), SP, P('.') if d(st.integers(0, 3)) == 0 else self.jump()]
        if c == 12:
            r = [kw('AUTO')]
            c2 = d(st.integers(0, 3))
            if c2 >= 1:
                r += [SP, self.jump()]
            if c2 >= 2:
                r += [P(','), self.jump()]
            return r
        if c == 13:
            return self.lvalue() + [O('='), kw('ERL')]
        if c == 14:
            # look-alikes that are NOT jump numbers
            return [kw('PRINT'), SP] + [self.draw(st_intlit())] + [P(';')] + [self.draw(st_string())]
        if c == 15:
            return [kw('LIST'), SP, self.jump(), O('-'), self.jump(), P(',')] + [self.draw(st_string())]
        return [kw(d(st.sampled_from(['GOTO', 'GOSUB']))), SP, self.jump()]

    def comment(self):
        d = self.draw
        text = d(st.text(alphabet=st.sampled_from(_REM_CHARS), max_size=20))
        if d(st.booleans()):
            return ['rem', 'REM', d(st_mask('REM')), (' ' + text) if text else '']
        return ['rem', "'", 0, text]

    def data(self):
        d = self.draw
        items = []
        for _ in range(d(st.integers(1, 4))):
            c = d(st.integers(0, 4))
            if c == 0:
                items.append('"' + d(st.text(alphabet=st.sampled_from(
                    [ch for ch in _STR_CHARS if ord(ch) < 0x7f]), max_size=8)) + '"')
            elif c == 1:
                items.append(d(st.sampled_from(['1', '-2.5', '1E5', '&H1F', '100', ' 42 ', '', '3.14#'])))
            else:
                items.append(d(st.text(alphabet=st.sampled_from(
                    [ch for ch in _DATA_CHARS if ch != ',']), max_size=8)))
        return ['data', d(st_mask('DATA')), ' ' + ','.join(items)]


def _flatten(x):
    out = []
    for a in x:
        if a and isinstance(a[0], list):
            out.extend(_flatten(a))
        elif a:
            out.append(a)
    return out


def body_len(atoms, syntax='advanced'):
    ent, can, tok = render(atoms, syntax)
    return max(len(ent), len(can))


@st.composite
def st_line_atoms(draw, syntax='advanced', jumps=None, max_len=230, max_statements=4, prefix=None):
    """Canonical atom list for one program line body (entered and listed text <= max_len)."""
    b = _B(draw, syntax, jumps)
    atoms = list(prefix or [])
    nst = draw(st.integers(1, max_statements))
    for i in range(nst):
        c = draw(st.integers(0, 19))
        if c <= 11:
            stt = b.simple_statement()
        elif c <= 16:
            stt = b.jump_statement()
        elif c <= 18:
            stt = [b.data()]
        else:
            stt = [b.comment()]
        stt = _flatten(stt)
        cand = canonical(atoms + ([P(':')] if atoms else []) + stt)
        if body_len(cand, syntax) > max_len:
            break
        atoms = cand
        if stt and stt[-1][0] == 'rem':
            break
    if not atoms:
        atoms = [['k', 'END', 0]]
    # optional trailing ' comment on a non-comment line
    if atoms[-1][0] not in ('rem', 'data') and draw(st.integers(0, 9)) == 0:
        com = b.comment()
        cand = canonical(atoms + b.osp() + ([P(':')] if com[1] == 'REM' else []) + [com])
        if body_len(cand, syntax) <= max_len:
            atoms = cand
    # a string literal at the very end of the line may lack its closing quote
    if atoms[-1][0] == 's' and draw(st.integers(0, 3)) == 0:
        atoms = atoms[:-1] + [['s', atoms[-1][1], False]]
    return atoms


def scaled(n):
    """Example count scaled by VERIF_SCALE (percent; development aid, default 100)."""
    import os
    try:
        pct = int(os.environ.get('VERIF_SCALE', '100'))
    except ValueError:
        pct = 100
    return max(1, n * pct // 100)


def st_syntax():
    return st.sampled_from(['advanced', 'advanced', 'pcjr', 'tandy'])


def line_text(number, atoms, syntax='advanced', which='entered'):
    ent, can, tok = render(atoms, syntax)
    return ('%d ' % number).encode() + (ent if which == 'entered' else can)


def line_tokens(number, atoms, syntax='advanced'):
    """Tokenised body as stored when the line is entered as '<number> <body>'."""
    tok = render(atoms, syntax)[2]
    # GW-BASIC keeps the blank behind line number 0
    return (b' ' if number == 0 else b'') + tok
