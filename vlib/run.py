"""
Runner:  python -m vlib.run <ID> [--tier quick|thorough] [--seed N] [--replay FILE] [--jobs N]

Exit codes: 0 property held on everything explored (KNOWN-FINDING lines may be printed)
            1 at least one violation not listed in known_findings.json (VIOLATION lines printed)
            2 harness error (never reported as a violation)
"""
import os
import re
import sys
import json
import glob
import time
import signal
import fnmatch
import argparse
import importlib
import traceback
import multiprocessing

VERIF_DIR = os.path.dirname(os.path.dirname(os.path.abspath(__file__)))
if VERIF_DIR not in sys.path:
    sys.path.insert(0, VERIF_DIR)

from vlib.core import Result, ShardEvidence, case_hash       # noqa: E402


class CaseTimeout(Exception):
    pass


_ALARM_FIRED = [False]


def _alarm(signum, frame):
    _ALARM_FIRED[0] = True
    raise CaseTimeout()


def find_module(pid):
    pid = pid.upper()
    pat = os.path.join(VERIF_DIR, 'vlib', 'props', pid.lower() + '_*.py')
    hits = sorted(glob.glob(pat))
    if not hits:
        raise SystemExit('no property module for %s' % pid)
    name = os.path.basename(hits[0])[:-3]
    return importlib.import_module('vlib.props.' + name)


def load_findings(pid):
    path = os.path.join(VERIF_DIR, 'known_findings.json')
    try:
        with open(path) as f:
            data = json.load(f)
    except FileNotFoundError:
        return []
    return [e for e in data.get('findings', []) if e.get('property') == pid]


def match_open_finding(findings, key):
    for e in findings:
        if e.get('status') == 'open' and fnmatch.fnmatchcase(key, e['key']):
            return e
    return None


def judge(mod, case, timeout):
    """Run check_case under a per-case wall limit. Returns Result (never raises)."""
    signal.signal(signal.SIGALRM, _alarm)
    _ALARM_FIRED[0] = False
    signal.setitimer(signal.ITIMER_REAL, timeout)
    try:
        res = mod.check_case(case)
    except CaseTimeout:
        res = None
    finally:
        signal.setitimer(signal.ITIMER_REAL, 0)
    if res is None or _ALARM_FIRED[0]:
        # the wall limit was hit: wherever the exception surfaced (it may have been swallowed by a
        # session wrapper as an 'escaped' exception and left the case in a broken state), the case
        # is inconclusive - a time limit is never a violation
        res = Result()
        res.inconclusive = True
        res.label('case-wall-limit')
    return res


def shard_seed(seed, unit, shard):
    return (seed * 1000003 + case_hash([unit, shard])) % (2 ** 31)


def run_shard(args):
    mod_name, unit_name, shard, nshards, tier, seed = args
    os.environ['VERIF_TIER'] = tier
    t0 = time.time()
    ev = ShardEvidence(unit_name)
    try:
        mod = importlib.import_module(mod_name)
        findings = load_findings(mod.ID)
        unit = [u for u in mod.units(tier) if u.name == unit_name][0]
        sseed = shard_seed(seed, unit_name, shard)
        if unit.kind == 'bulk':
            unit.run(shard, nshards, tier, sseed, ev)
        elif unit.kind == 'enum':
            for case in unit.gen(shard, nshards, tier, sseed):
                ev.record(case, judge(mod, case, unit.per_case_timeout))
        elif unit.kind == 'hyp':
            _run_hyp(mod, unit, tier, sseed, ev, findings)
        else:
            raise ValueError(unit.kind)
    except BaseException as e:      # noqa: B902
        if isinstance(e, KeyboardInterrupt):
            raise
        ev.harness_errors.append('%s shard %d: %s' % (
            unit_name, shard, ''.join(traceback.format_exception(type(e), e, e.__traceback__))))
    out = ev.export()
    out['wall'] = time.time() - t0
    try:
        from vlib import harness
        import shutil
        # remove this worker's scratch dirs
        for d in glob.glob(os.path.join(harness.WORK_ROOT, 'c%d_*' % os.getpid())):
            shutil.rmtree(d, ignore_errors=True)
    except Exception:
        pass
    return out


def _hyp_settings(n, phases):
    from hypothesis import settings, HealthCheck
    return settings(
        max_examples=n, database=None, deadline=None, derandomize=False,
        report_multiple_bugs=False, phases=phases,
        suppress_health_check=list(HealthCheck), print_blob=False,
    )


def _run_hyp(mod, unit, tier, sseed, ev, findings):
    import hypothesis
    from hypothesis import given, seed, Phase
    n = unit.examples[tier]
    strat = unit.strategy()

    @seed(sseed)
    @_hyp_settings(n, [Phase.generate])
    @given(strat)
    def collect(case):
        ev.record(case, judge(mod, case, unit.per_case_timeout))

    collect()
    # shrink each new (unlisted) bucket
    new_keys = [k for k in ev.failures if not match_open_finding(findings, k)]
    cap = 25.0 if tier == 'quick' else 120.0
    for key in new_keys[:3]:
        best = {'case': ev.failures[key][0]['case'], 'msg': ev.failures[key][0]['msg']}
        best_len = [len(json.dumps(best['case'], default=repr))]
        tstart = time.time()

        @seed(sseed)
        @_hyp_settings(n, [Phase.generate, Phase.shrink])
        @given(strat)
        def shrink(case):
            if time.time() - tstart > cap:
                return
            res = judge(mod, case, unit.per_case_timeout)
            for k, msg in res.fails:
                if k == key:
                    ln = len(json.dumps(case, default=repr))
                    if ln <= best_len[0]:
                        best_len[0] = ln
                        best['case'] = case
                        best['msg'] = msg
                    raise AssertionError(key)
        try:
            shrink()
        except BaseException as e:      # noqa: B902
            if isinstance(e, KeyboardInterrupt):
                raise
        ev.shrunk[key] = best


def safe_name(key):
    return re.sub(r'[^A-Za-z0-9_.-]+', '_', key)[:80]


def write_replay(mod, key, case, msg, seed, tier):
    d = os.path.join(VERIF_DIR, 'replays', mod.ID)
    os.makedirs(d, exist_ok=True)
    path = os.path.join(d, 'viol_%s.json' % safe_name(key))
    with open(path, 'w') as f:
        json.dump({'property': mod.ID, 'key': key, 'message': msg, 'case': case,
                   'seed': seed, 'tier': tier}, f, indent=1, default=repr)
    return path


def do_replay(mod, path):
    with open(path) as f:
        data = json.load(f)
    case = data['case']
    findings = load_findings(mod.ID)
    res = judge(mod, case, 600)
    print('replay %s: %d failing clause(s)' % (path, len(res.fails)))
    rc = 0
    for key, msg in res.fails:
        e = match_open_finding(findings, key)
        if e:
            print('KNOWN-FINDING: property=%s %s' % (mod.ID, e['what']))
        else:
            print('  %s: %s' % (key, msg))
            print('VIOLATION property=%s replay=%s' % (mod.ID, path))
            rc = 1
    if not res.fails:
        print('case passes')
    return rc


def main(argv=None):
    ap = argparse.ArgumentParser()
    ap.add_argument('pid')
    ap.add_argument('--tier', default=os.environ.get('VERIF_TIER') or 'quick',
                    choices=['quick', 'thorough'])
    ap.add_argument('--seed', type=int, default=None)
    ap.add_argument('--replay', default=None)
    ap.add_argument('--jobs', type=int, default=int(os.environ.get('VERIF_JOBS', '16')))
    ap.add_argument('--unit', default=None, help='run only this unit (debugging)')
    args = ap.parse_args(argv)
    seed = args.seed
    if seed is None:
        try:
            seed = int(os.environ.get('VERIF_SEED', '1'))
        except ValueError:
            seed = 1
    tier = args.tier
    os.environ['VERIF_TIER'] = tier
    t0 = time.time()
    try:
        mod = find_module(args.pid)
    except SystemExit:
        raise
    except BaseException:       # noqa: B902
        traceback.print_exc()
        return 2
    if args.replay:
        return do_replay(mod, args.replay)
    findings = load_findings(mod.ID)
    units = mod.units(tier)
    if args.unit:
        units = [u for u in units if u.name == args.unit]
    tasks = []
    for u in units:
        ns = u.shards[tier]
        for i in range(ns):
            tasks.append((mod.__name__, u.name, i, ns, tier, seed))
    # regression cases run in the parent
    merged = {
        'evaluations': 0, 'nt': set(), 'nt_constructed': 0, 'labels': {}, 'samples': [],
        'nt_samples': [], 'failures': {}, 'excluded': 0, 'inconclusive': 0, 'harness': [],
        'units': {}, 'shrunk': {},
    }

    def merge(out):
        merged['evaluations'] += out['evaluations']
        merged['nt'] |= out['nt_hashes']
        merged['nt_constructed'] += out['nt_constructed']
        for k, v in out['labels'].items():
            merged['labels'][k] = merged['labels'].get(k, 0) + v
        if len(merged['samples']) < 3:
            merged['samples'].extend(out['samples'][:1])
        if len(merged['nt_samples']) < 8:
            merged['nt_samples'].extend(out['nt_samples'][:2])
        for k, lst in out['failures'].items():
            merged['failures'].setdefault(k, []).extend(lst)
        for k, b in out['shrunk'].items():
            cur = merged['shrunk'].get(k)
            if cur is None or len(json.dumps(b['case'], default=repr)) < len(
                    json.dumps(cur['case'], default=repr)):
                merged['shrunk'][k] = b
        merged['excluded'] += out['excluded']
        merged['inconclusive'] += out['inconclusive']
        merged['harness'].extend(out['harness_errors'])
        u = merged['units'].setdefault(out['unit'], {'evaluations': 0, 'wall_max': 0.0})
        u['evaluations'] += out['evaluations']
        u['wall_max'] = max(u['wall_max'], round(out.get('wall', 0), 1))

    regress = getattr(mod, 'REGRESSIONS', [])
    if regress and not args.unit:
        ev = ShardEvidence('regressions')
        for case in regress:
            try:
                ev.record(case, judge(mod, case, 120))
            except BaseException as e:      # noqa: B902
                if isinstance(e, KeyboardInterrupt):
                    raise
                ev.harness_errors.append('regression %r: %s' % (case, traceback.format_exc()))
        merge(ev.export())

    if tasks:
        ctx = multiprocessing.get_context('fork')
        jobs = max(1, min(args.jobs, len(tasks)))
        with ctx.Pool(jobs, maxtasksperchild=1) as pool:
            for out in pool.imap_unordered(run_shard, tasks):
                merge(out)

    # verdicts
    rc = 0
    viol = 0
    known_seen = {}
    for key in sorted(merged['failures']):
        e = match_open_finding(findings, key)
        if e:
            known_seen.setdefault(e['key'], e)
            continue
        best = merged['shrunk'].get(key) or merged['failures'][key][0]
        # confirm the (shrunk) case reproduces outside Hypothesis; fall back to the original
        confirmed = None
        for cand in [best] + merged['failures'][key][:1]:
            try:
                res = judge(mod, cand['case'], 600)
            except BaseException:       # noqa: B902
                merged['harness'].append('confirm %s: %s' % (key, traceback.format_exc()))
                continue
            if key in res.keys():
                confirmed = cand
                break
        if confirmed is None:
            merged['harness'].append('failure %s did not reproduce deterministically: %r' % (
                key, best['case']))
            continue
        path = write_replay(mod, key, confirmed['case'], confirmed['msg'], seed, tier)
        print('  bucket %s: %s' % (key, confirmed['msg'][:500]))
        print('VIOLATION property=%s replay=%s' % (mod.ID, os.path.relpath(path, VERIF_DIR)))
        viol += 1
        rc = 1
    for e in known_seen.values():
        print('KNOWN-FINDING: property=%s %s' % (mod.ID, e['what']))

    wall = time.time() - t0
    nt = len(merged['nt']) + merged['nt_constructed']
    samples = (merged['nt_samples'][:8] + merged['samples'][:2]) or ['<none>']
    exhaustive = bool(units) and all(u.exhaustive for u in units)
    cov = {
        'evaluations': merged['evaluations'],
        'distinct_nontrivial': nt,
        'rule': mod.RULE,
        'samples': samples,
        'labels': dict(sorted(merged['labels'].items(), key=lambda kv: -kv[1])[:60]),
        'units': merged['units'],
        'excluded_known': merged['excluded'],
        'inconclusive': merged['inconclusive'],
        'known_findings_observed': sorted(known_seen),
        'exhaustive': exhaustive,
        'exhaustive_units': [u.name for u in units if u.exhaustive],
        'jobs': args.jobs,
    }
    evid = {
        'property_id': mod.ID,
        'tier': tier,
        'seed': seed,
        'level': getattr(mod, 'LEVEL', 'exploration'),
        'coverage': cov,
        'assumptions': list(getattr(mod, 'ASSUMPTIONS', [])),
        'wall_s': round(wall, 2),
        'violations': viol,
    }
    if merged['harness']:
        evid['coverage']['harness_errors'] = merged['harness'][:5]
    if not args.unit:
        evdir = os.path.join(VERIF_DIR, 'evidence')
        if os.path.realpath(os.environ.get('VERIF_REPO', '/repo')) != '/repo':
            # sensitivity run against a scratch copy: not evidence about /repo
            evdir = os.path.join(VERIF_DIR, '.work', 'mutant-evidence')
        os.makedirs(evdir, exist_ok=True)
        with open(os.path.join(evdir, mod.ID + '.json'), 'w') as f:
            json.dump(evid, f, indent=1, default=repr)
    print('%s tier=%s seed=%d evaluations=%d distinct_nontrivial=%d excluded_known=%d '
          'inconclusive=%d violations=%d wall=%.1fs' % (
              mod.ID, tier, seed, merged['evaluations'], nt, merged['excluded'],
              merged['inconclusive'], viol, wall))
    if args.unit or os.environ.get('VERIF_VERBOSE'):
        print(json.dumps(cov['labels'], indent=1))
        print(json.dumps(cov['units'], indent=1))
    if merged['harness']:
        sys.stderr.write('HARNESS ERRORS:\n' + '\n'.join(merged['harness'][:5]) + '\n')
        if rc == 0:
            rc = 2
    return rc


if __name__ == '__main__':
    sys.exit(main())
