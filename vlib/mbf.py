"""
Independent model of Microsoft Binary Format numbers (written from the format definition, not
from pcbasic): bytes <-> exact Fraction, neighbours, ulp, exact reference rounding.

Single: 4 bytes little endian  m0 m1 m2 e   ; Double: 8 bytes  m0..m6 e
  e == 0           -> value 0 (whatever the mantissa bytes hold)
  sign             =  top bit of the most significant mantissa byte
  value            =  (-1)^sign * (2^(p-1) + (mantissa & (2^(p-1)-1))) * 2^(e - 128 - p)
  with p = 24 (single) or 56 (double) bits of precision.
"""
from fractions import Fraction

PREC = {4: 24, 8: 56}
BIAS = 128


def decode(b):
    """bytes (len 2, 4 or 8) -> Fraction (2 bytes: int16 two's complement little endian)."""
    b = bytes(b)
    n = len(b)
    if n == 2:
        v = b[0] | (b[1] << 8)
        return Fraction(v - 0x10000 if v & 0x8000 else v)
    p = PREC[n]
    e = b[-1]
    if e == 0:
        return Fraction(0)
    man = int.from_bytes(b[:-1], 'little')
    sign = man >> (p - 1)
    man = (man & ((1 << (p - 1)) - 1)) | (1 << (p - 1))
    v = Fraction(man) * Fraction(2) ** (e - BIAS - p)
    return -v if sign else v


def encode_parts(sign, man, e, n):
    """sign 0/1, man with the leading one at bit p-1, biased exponent e -> bytes."""
    p = PREC[n]
    assert (man >> (p - 1)) == 1, (man, p)
    assert 1 <= e <= 255
    m = (man & ((1 << (p - 1)) - 1)) | (sign << (p - 1))
    return m.to_bytes(n - 1, 'little') + bytes([e])


def parts(b):
    """bytes -> (sign, man (with leading one), biased exponent) ; None for zero."""
    b = bytes(b)
    p = PREC[len(b)]
    e = b[-1]
    if e == 0:
        return None
    man = int.from_bytes(b[:-1], 'little')
    sign = man >> (p - 1)
    man = (man & ((1 << (p - 1)) - 1)) | (1 << (p - 1))
    return sign, man, e


def ulp(b):
    """Unit in the last place of the value encoded by b (Fraction); for zero: smallest ulp."""
    b = bytes(b)
    p = PREC[len(b)]
    e = b[-1] or 1
    return Fraction(2) ** (e - BIAS - p)


def ulp_of_value(x, n):
    """ulp of the binade containing |x| for an n-byte float (exact Fraction x != 0)."""
    p = PREC[n]
    e = exponent_of(x)
    return Fraction(2) ** (e - p)


def exponent_of(x):
    """Unbiased e with 2^(e-1) <= |x| < 2^e  (so that biased = e + 128)."""
    x = abs(Fraction(x))
    assert x > 0
    num, den = x.numerator, x.denominator
    e = num.bit_length() - den.bit_length()
    # 2^(e-1) <= x < 2^(e+1) roughly; fix up
    while Fraction(2) ** e <= x:
        e += 1
    while Fraction(2) ** (e - 1) > x:
        e -= 1
    return e


MAXVAL = {n: (Fraction(2) ** PREC[n] - 1) * Fraction(2) ** (255 - BIAS - PREC[n]) for n in (4, 8)}
MINPOS = Fraction(2) ** (1 - BIAS - 1)        # 2^-128: smallest positive (e=1, mantissa 0.1b)


def floor_ceil(x, n):
    """
    The two n-byte MBF neighbours of exact x as Fractions (lo <= x <= hi), ignoring range limits
    (may lie outside the representable exponents).
    """
    x = Fraction(x)
    if x == 0:
        return Fraction(0), Fraction(0)
    p = PREC[n]
    e = exponent_of(x)
    u = Fraction(2) ** (e - p)
    q = x / u
    lo = (q.numerator // q.denominator)
    hi = lo if q.denominator == 1 else lo + 1
    return lo * u, hi * u


def nearest(x, n):
    """Round-half-even reference: value of nearest n-byte MBF to x (ignoring range)."""
    lo, hi = floor_ceil(x, n)
    if lo == hi:
        return lo
    dl, dh = x - lo, hi - x
    if dl < dh:
        return lo
    if dh < dl:
        return hi
    u = hi - lo
    return lo if (lo / u).numerator % 2 == 0 else hi


def encode_value(x, n):
    """Exact representable Fraction -> bytes (raises if not representable / out of range)."""
    x = Fraction(x)
    if x == 0:
        return bytes(n)
    p = PREC[n]
    e = exponent_of(x)
    man = abs(x) / Fraction(2) ** (e - p)
    if man.denominator != 1:
        raise ValueError('not representable')
    be = e + BIAS
    if not 1 <= be <= 255:
        raise ValueError('out of range')
    return encode_parts(1 if x < 0 else 0, int(man), be, n)


def representable(x, n):
    try:
        encode_value(x, n)
        return True
    except ValueError:
        return False


def int16_bytes(v):
    return (v & 0xffff).to_bytes(2, 'little')


def to_float(b):
    """Lossy float for messages only."""
    return float(decode(b))
