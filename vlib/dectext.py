"""
Independent decimal-text model (exact Fractions) shared by C07, C08 and C43.

Nothing here imports pcbasic. Two readers:

* `read_shown(text)`   - a number as BASIC *shows* it (PRINT, STR$, WRITE, LIST):
                         `[ -]digits[.digits][E|D(+|-)dd][!|#|%]`
* `read_literal(text)` - a number as a user *writes* it (literal, VAL, INPUT, READ): blanks anywhere,
                         optional sign, digits with optional point, optional E/D exponent with
                         optional sign, optional sigil.

Both return a `Dec` with the exact value, the unit of the last digit written and digit counts.
"""
import re
from fractions import Fraction

_SHOWN = re.compile(r'^([ -]?)(\d*)(?:(\.)(\d*))?(?:([ED])([+-])(\d\d))?([!#%]?)$')
_LITERAL = re.compile(r'^([+-]?)(\d*)(?:(\.)(\d*))?(?:([EeDd])([+-]?)(\d*))?([!#%]?)$')


class Dec(object):
    """Decomposed decimal text."""

    __slots__ = ('neg', 'ipart', 'fpart', 'point', 'expchar', 'exp', 'sigil', 'value', 'unit',
                 'sig', 'sig_nz', 'digits')

    def __repr__(self):
        return 'Dec(%s%s.%s %s%+d %r = %s unit %s sig %d)' % (
            '-' if self.neg else '', self.ipart, self.fpart, self.expchar or '', self.exp,
            self.sigil, self.value, self.unit, self.sig)


def ten(n):
    """Exact 10**n for any integer n."""
    return Fraction(10) ** n


def _build(m):
    d = Dec()
    sign, ipart, point, fpart, expchar, expsign, expdigits, sigil = m.groups()
    d.neg = sign == '-'
    d.ipart = ipart or ''
    d.fpart = fpart or ''
    d.point = bool(point)
    d.expchar = (expchar or '').upper()
    e = int(expdigits) if expdigits else 0
    d.exp = -e if expsign == '-' else e
    d.sigil = sigil
    d.digits = d.ipart + d.fpart
    mant = int(d.digits) if d.digits else 0
    d.unit = ten(d.exp - len(d.fpart))
    d.value = mant * d.unit
    if d.neg:
        d.value = -d.value
    stripped = d.digits.lstrip('0')
    # significant digits: from the first non-zero digit to the last digit written
    d.sig = len(stripped)
    # the same, not counting zeros written at the end of the fraction part
    if d.fpart:
        tz = len(d.fpart) - len(d.fpart.rstrip('0'))
        d.sig_nz = max(0, len(stripped) - min(tz, len(stripped)))
    else:
        d.sig_nz = d.sig
    return d


def read_shown(text):
    """Parse a number as shown by BASIC; None if the text has another shape."""
    if isinstance(text, (bytes, bytearray)):
        text = bytes(text).decode('latin-1')
    m = _SHOWN.match(text)
    if not m or not (m.group(2) or m.group(4)):
        return None
    return _build(m)


def read_literal(text, blanks=' '):
    """Parse a number as written by a user (blanks are ignored anywhere); None if malformed."""
    if isinstance(text, (bytes, bytearray)):
        text = bytes(text).decode('latin-1')
    for b in blanks:
        text = text.replace(b, '')
    m = _LITERAL.match(text)
    if not m:
        return None
    return _build(m)


def round_half_up(x, decimals):
    """|x| rounded half away from zero to `decimals` places -> integer count of 10^-decimals units."""
    x = abs(Fraction(x)) * ten(decimals)
    fl = x.numerator // x.denominator
    if (x - fl) * 2 >= 1:
        fl += 1
    return fl


def floor_units(x, decimals):
    x = abs(Fraction(x)) * ten(decimals)
    return x.numerator // x.denominator


def exp10_of(x):
    """k with 10^k <= |x| < 10^(k+1), exact."""
    x = abs(Fraction(x))
    assert x > 0
    k = len(str(x.numerator)) - len(str(x.denominator))
    while ten(k) > x:
        k -= 1
    while ten(k + 1) <= x:
        k += 1
    return k
