"""
Helpers shared by the C10/C11/C12 checks (string memory, variable storage, arrays):
choice sources that let one generator serve both a Hypothesis (shrinkable) unit and a seeded
random (volume) unit, a per-process sandbox, and readers for the documented low-memory pointers.
"""
import os
import atexit

from hypothesis import strategies as st

from vlib import harness


class RandomChooser(object):
    """Choices from a seeded random.Random."""

    def __init__(self, rng):
        self.rng = rng

    def choice(self, seq):
        return seq[self.rng.randrange(len(seq))]

    def int(self, lo, hi):
        return self.rng.randint(lo, hi)

    def weighted(self, pairs):
        """pairs = [(weight, item), ...]"""
        total = sum(w for w, _ in pairs)
        r = self.int(0, total - 1)
        for w, item in pairs:
            if r < w:
                return item
            r -= w
        return pairs[-1][1]


class HypChooser(RandomChooser):
    """The same choices drawn from Hypothesis."""

    def __init__(self, draw):
        self.draw = draw

    def choice(self, seq):
        return seq[self.draw(st.integers(0, len(seq) - 1))]

    def int(self, lo, hi):
        return self.draw(st.integers(lo, hi))


_SANDBOX = {}


def shared_sandbox():
    """One scratch directory per process for checks that never touch the file system."""
    sb = _SANDBOX.get(os.getpid())
    if sb is None:
        sb = harness.Sandbox()
        _SANDBOX[os.getpid()] = sb
        atexit.register(sb.close)
    return sb


def peek(sess, addr):
    o = sess.evaluate(b'PEEK(%d)' % addr)
    if o.kind != 'ok' or o.errors:
        raise ReadError('PEEK(%d) -> %r' % (addr, o))
    return int(o.value)


def peek16(sess, addr):
    return peek(sess, addr) + 256 * peek(sess, addr + 1)


class ReadError(Exception):
    """An observation (PEEK / variable read) failed; carries the outcome text."""


def escaped_key(o):
    return 'escaped.%s@%s' % (o.exc, o.frame)


def exc_key(e):
    """Bucket key for a Python exception that escaped a direct API call (get_variable...)."""
    return 'escaped.%s@%s' % (type(e).__name__, harness.innermost_frame(e.__traceback__))
