"""
Safe session factory and outcome classification shared by all property checks.

Nothing here is a hook in the repository: budgets and event injection work by replacing the
*instance* attribute `session._impl.queues.check_events` of a session we created ourselves.
"""
import io
import os
import re
import sys
import shutil
import tempfile
import traceback

REPO = os.environ.get('VERIF_REPO', '/repo')
if REPO not in sys.path:
    sys.path.insert(0, REPO)

from pcbasic.basic import Session                      # noqa: E402
from pcbasic.basic import eventcycle                   # noqa: E402
from pcbasic.basic.base import error, signals          # noqa: E402

# wait loops must not sleep in the checker process (single-threaded; no interface thread to yield to)
eventcycle.EventQueues.tick = 0


class _NoSleepTime(object):
    """Stand-in for the `time` module inside eventcycle: sleep() returns at once."""

    def __getattr__(self, name):
        import time as _t
        return getattr(_t, name)

    @staticmethod
    def sleep(_secs):
        return None


eventcycle.time = _NoSleepTime()

VERIF_DIR = os.path.dirname(os.path.dirname(os.path.abspath(__file__)))
WORK_ROOT = os.path.join(VERIF_DIR, '.work')

# GW-BASIC error table, written from the manual (independent of pcbasic.basic.base.error)
ERROR_MESSAGES = {
    1: 'NEXT without FOR', 2: 'Syntax error', 3: 'RETURN without GOSUB', 4: 'Out of DATA',
    5: 'Illegal function call', 6: 'Overflow', 7: 'Out of memory', 8: 'Undefined line number',
    9: 'Subscript out of range', 10: 'Duplicate Definition', 11: 'Division by zero',
    12: 'Illegal direct', 13: 'Type mismatch', 14: 'Out of string space', 15: 'String too long',
    16: 'String formula too complex', 17: "Can't continue", 18: 'Undefined user function',
    19: 'No RESUME', 20: 'RESUME without error', 22: 'Missing operand',
    23: 'Line buffer overflow', 24: 'Device Timeout', 25: 'Device Fault',
    26: 'FOR without NEXT', 27: 'Out of paper', 29: 'WHILE without WEND',
    30: 'WEND without WHILE', 50: 'FIELD overflow', 51: 'Internal error', 52: 'Bad file number',
    53: 'File not found', 54: 'Bad file mode', 55: 'File already open', 57: 'Device I/O error',
    58: 'File already exists', 61: 'Disk full', 62: 'Input past end', 63: 'Bad record number',
    64: 'Bad file name', 66: 'Direct statement in file', 67: 'Too many files',
    68: 'Device Unavailable', 69: 'Communication buffer overflow', 70: 'Permission Denied',
    71: 'Disk not Ready', 72: 'Disk media error', 73: 'Advanced Feature',
    74: 'Rename across disks', 75: 'Path/File access error', 76: 'Path not found',
    77: 'Deadlock',
}
_MSG_TO_CODE = {v.lower(): k for k, v in ERROR_MESSAGES.items()}
_ERR_RE = re.compile(
    b'(' + b'|'.join(re.escape(m.encode()) for m in sorted(ERROR_MESSAGES.values(), key=len,
                                                           reverse=True))
    + b'|Unprintable error)(?: in (\\d+))?\xff?\r', re.I
)


class BudgetExhausted(Exception):
    """Raised inside the harness only (never by pcbasic)."""


class Sandbox(object):
    """A scratch directory tree for one case; removed on close."""

    _n = 0

    def __init__(self):
        os.makedirs(WORK_ROOT, exist_ok=True)
        self.root = tempfile.mkdtemp(prefix='c%d_' % os.getpid(), dir=WORK_ROOT)
        self.z = os.path.join(self.root, 'z')
        os.mkdir(self.z)
        self._pid = os.getpid()

    def path(self, *parts):
        return os.path.join(self.root, *parts)

    def close(self):
        # a sandbox inherited through fork() belongs to the parent (and may be in use by sibling
        # workers): only the process that made it removes it
        if getattr(self, '_pid', os.getpid()) == os.getpid():
            shutil.rmtree(self.root, ignore_errors=True)

    def __enter__(self):
        return self

    def __exit__(self, *a):
        self.close()


class Outcome(object):
    """Result of one execute/evaluate call."""

    __slots__ = ('kind', 'output', 'errors', 'exc', 'frame', 'value', 'tb')

    def __init__(self, kind, output=b'', errors=(), exc=None, frame=None, value=None, tb=None):
        self.kind = kind            # 'ok' | 'exit' | 'budget' | 'escaped'
        self.output = output        # bytes written to the output stream
        self.errors = list(errors)  # list of (code, line or None) parsed from the output
        self.exc = exc              # exception type name if escaped
        self.frame = frame          # innermost pcbasic frame 'file.py:func'
        self.value = value
        self.tb = tb

    @property
    def err(self):
        """First BASIC error code reported, or 0."""
        return self.errors[0][0] if self.errors else 0

    @property
    def errline(self):
        return self.errors[0][1] if self.errors else None

    @property
    def text(self):
        """Output with error-message markers removed (latin-1 text)."""
        return self.output.decode('latin-1')

    def key(self):
        return '%s:%s@%s' % (self.kind, self.exc, self.frame)

    def __repr__(self):
        return 'Outcome(%s, out=%r, errors=%r, exc=%s@%s)' % (
            self.kind, self.output[:200], self.errors, self.exc, self.frame)


def parse_errors(output):
    """Find BASIC error messages in console output -> [(code, line|None)]."""
    found = []
    for m in _ERR_RE.finditer(output):
        msg = m.group(1).decode().lower()
        code = _MSG_TO_CODE.get(msg, -1)
        line = int(m.group(2)) if m.group(2) else None
        found.append((code, line))
    return found


def innermost_frame(tb):
    """Innermost frame inside the pcbasic package of a traceback."""
    frame = None
    last = None
    for fs in traceback.extract_tb(tb):
        last = fs
        if '/pcbasic/' in fs.filename.replace('\\', '/'):
            frame = fs
    fs = frame or last
    if fs is None:
        return '?'
    return '%s:%s' % (os.path.basename(fs.filename), fs.name)


class Sess(object):
    """
    Wrapper around pcbasic Session with safe defaults, a statement budget and classified outcomes.
    """

    def __init__(self, sandbox=None, budget=20000, defaults=False, **kwargs):
        self._own_sandbox = sandbox is None
        self.sandbox = sandbox or Sandbox()
        kw = dict(
            input_streams=None, output_streams=None,
            devices={'Z': self.sandbox.z}, current_device='Z:',
            peek_values={},
        )
        if defaults:
            kw = {}
        kw.update(kwargs)
        self.kwargs = kw
        self.s = Session(**kw)
        self.s.start()
        self.impl = self.s._impl
        self.budget = budget
        self.calls = 0
        self.inject = None       # optional callable(call_index) run before each check_events
        self._install_budget()

    def _install_budget(self):
        queues = self.impl.queues
        orig = type(queues).check_events.__get__(queues)
        me = self

        def check_events():
            me.calls += 1
            if me.inject is not None:
                me.inject(me.calls)
            if me.budget is not None and me.calls > me.budget:
                raise BudgetExhausted()
            return orig()
        queues.check_events = check_events

    def remove_budget(self):
        try:
            del self.impl.queues.check_events
        except AttributeError:
            pass

    def reset_budget(self, budget=None):
        self.calls = 0
        if budget is not None:
            self.budget = budget

    def _run(self, fn, out=None):
        self.calls = 0
        try:
            value = fn()
        except BudgetExhausted:
            self._recover()
            o = out.getvalue() if out is not None else b''
            return Outcome('budget', o, parse_errors(o))
        except error.Exit:
            o = out.getvalue() if out is not None else b''
            return Outcome('exit', o, parse_errors(o))
        except BaseException as e:          # noqa: B902 -- classification is the point
            if isinstance(e, (KeyboardInterrupt, SystemExit, MemoryError)):
                raise
            o = out.getvalue() if out is not None else b''
            tb = ''.join(traceback.format_exception(type(e), e, e.__traceback__)[-6:])
            return Outcome('escaped', o, parse_errors(o), type(e).__name__,
                           innermost_frame(e.__traceback__), tb=tb)
        o = out.getvalue() if out is not None else b''
        return Outcome('ok', o, parse_errors(o), value=value)

    def _recover(self):
        """After a budget stop: leave the interpreter in direct mode."""
        try:
            self.impl.interpreter.set_parse_mode(False)
            self.impl.interpreter.input_mode = False
        except Exception:
            pass

    def execute(self, text):
        """Execute one or more lines (bytes); returns Outcome with output bytes."""
        if isinstance(text, str):
            text = text.encode('latin-1')
        impl = self.impl
        out = io.BytesIO()

        def fn():
            with impl.io_streams.activate():
                impl.io_streams.add_pipes(None, out)
                try:
                    for cmd in text.splitlines():
                        impl.execute(cmd)
                finally:
                    impl.io_streams.remove_pipes(None, out)
        return self._run(fn, out)

    def execute_line(self, line):
        """Execute exactly one line of bytes that may contain CR/LF characters."""
        if isinstance(line, str):
            line = line.encode('latin-1')
        impl = self.impl
        out = io.BytesIO()

        def fn():
            with impl.io_streams.activate():
                impl.io_streams.add_pipes(None, out)
                try:
                    impl.execute(line)
                finally:
                    impl.io_streams.remove_pipes(None, out)
        return self._run(fn, out)

    def evaluate(self, expr):
        if isinstance(expr, str):
            expr = expr.encode('latin-1')
        impl = self.impl
        out = io.BytesIO()

        def fn():
            with impl.io_streams.activate():
                impl.io_streams.add_pipes(None, out)
                try:
                    return impl.evaluate(expr)
                finally:
                    impl.io_streams.remove_pipes(None, out)
        return self._run(fn, out)

    def interact(self, keys=None):
        """Run the interactive loop until Exit/budget; keys (bytes) are typed first."""
        impl = self.impl
        out = io.BytesIO()
        if keys:
            self.s.press_keys(keys)

        def fn():
            with impl.io_streams.activate():
                impl.io_streams.add_pipes(None, out)
                try:
                    impl.interact()
                finally:
                    impl.io_streams.remove_pipes(None, out)
        return self._run(fn, out)

    def get(self, name):
        if isinstance(name, str):
            name = name.encode('ascii')
        return self.s.get_variable(name)

    def set(self, name, value):
        if isinstance(name, str):
            name = name.encode('ascii')
        return self.s.set_variable(name, value)

    def put_signal(self, event_type, params=()):
        self.impl.queues.inputs.put(signals.Event(event_type, params))

    def chars(self):
        return [b''.join(row) for row in self.s.get_chars()]

    def close(self):
        kind = None
        try:
            self.remove_budget()
            self.s.close()
        except BaseException as e:      # noqa: B902
            if isinstance(e, (KeyboardInterrupt, SystemExit, MemoryError)):
                raise
            kind = Outcome('escaped', b'', (), type(e).__name__,
                           innermost_frame(e.__traceback__))
        if self._own_sandbox:
            self.sandbox.close()
        return kind

    def __enter__(self):
        return self

    def __exit__(self, *a):
        self.close()


def cleanup_work():
    shutil.rmtree(WORK_ROOT, ignore_errors=True)
