"""
Reference interpreter for structured GW-BASIC control flow and error trapping (C19, C21).

Independent of pcbasic: nothing is imported from /repo. A program is a *flat* list of numbered lines,
each a list of statement atoms (JSON-native dicts). Structural links (FOR -> its NEXT slot, WHILE ->
its WEND, IF -> its ELSE clause) are part of the program: generated programs get them from the
block tree they were compiled from (`compile_tree`), recorded corpus programs from a textual
nesting scan (`link_textual`); `compile_tree` cross-checks the two.

Semantics are written from the GW-BASIC/PC-BASIC manual, validated against the recorded GW-BASIC
outputs in /repo/tests/basic (see `CORPUS` in vlib/props/c19_flow.py):

  * FOR evaluates start, stop, step once; assigns the counter; runs the body while the counter has
    not passed stop in the step's direction (zero trips if already past; execution continues after
    the matching NEXT variable); NEXT adds step and tests again. Integer counters raise Overflow.
  * loop records are matched by the *position* of the NEXT/WEND that closes them (GW-BASIC scans for
    the matching NEXT/WEND when FOR/WHILE executes: FOR without NEXT / WHILE without WEND are raised
    there); NEXT/WEND with no live matching record raise NEXT without FOR / WEND without WHILE;
    records above the matching one are dropped (loops left by a jump).
  * GOSUB pushes the position after the calling statement; RETURN pops it (RETURN without GOSUB).
  * ON n GOTO/GOSUB: n rounded; <0 or >255 Illegal function call; 0 or > list falls through.
  * IF: zero -> ELSE clause (bound to the innermost free IF) or next line.
  * errors: with ON ERROR GOTO h active and not inside the handler: ERR, ERL set, jump to h;
    RESUME re-executes the failing statement, RESUME NEXT continues after it, RESUME n jumps;
    errors inside the handler, or with no handler, stop the program with (code, line).

Where neither the property statement nor the manual fixes the behaviour the machine raises `Unspec`
(e.g. STEP 0, reading a counter after a zero-trip loop, inexact single arithmetic) and the caller
asserts nothing beyond "no internal error".
"""
import re
from fractions import Fraction

F = Fraction


class Unspec(Exception):
    """Behaviour not fixed by the statement or the manual."""


class _Stop(Exception):
    pass


class _Err(Exception):
    def __init__(self, code):
        Exception.__init__(self, code)
        self.code = code


POISON = 'poison'

# --------------------------------------------------------------------------------------------
# numbers


def is_single(x):
    """Exactly representable as an MBF single (24-bit mantissa, exponent -128..126)?"""
    if x == 0:
        return True
    n, d = abs(x.numerator), x.denominator
    if d & (d - 1):
        return False
    # strip trailing zero bits of the numerator
    while n % 2 == 0:
        n //= 2
    if n.bit_length() > 24:
        return False
    return F(1, 2 ** 127) <= abs(x) < F(2) ** 126


def round_half_away(x):
    x = F(x)
    fl = x.numerator // x.denominator
    fr = x - fl
    if fr > F(1, 2) or (fr == F(1, 2) and x > 0):
        return fl + 1
    return fl


def s16(v):
    v &= 0xffff
    return v - 0x10000 if v & 0x8000 else v


def num_text(v):
    """BASIC literal text for an int or an exact dyadic float."""
    if isinstance(v, bool):
        raise ValueError(v)
    if isinstance(v, (int, str)):
        return str(v)
    fr = F(v)
    if fr.denominator == 1:
        return str(fr.numerator)
    # exact decimal expansion of a dyadic rational
    s = '-' if fr < 0 else ''
    fr = abs(fr)
    ip = fr.numerator // fr.denominator
    frac = fr - ip
    digits = ''
    while frac:
        frac *= 10
        dgt = frac.numerator // frac.denominator
        digits += str(dgt)
        frac -= dgt
        if len(digits) > 12:
            raise ValueError('not a short dyadic: %r' % (v,))
    return '%s%d.%s' % (s, ip, digits)


# --------------------------------------------------------------------------------------------
# expressions:  ['n', number] | ['v', NAME] | ['b', op, a, b] | ['neg', a] | ['s', text]

RELOPS = {'=': lambda a, b: a == b, '<>': lambda a, b: a != b, '<': lambda a, b: a < b,
          '>': lambda a, b: a > b, '<=': lambda a, b: a <= b, '>=': lambda a, b: a >= b}
_PREC = {'OR': 1, 'AND': 2, '=': 4, '<>': 4, '<': 4, '>': 4, '<=': 4, '>=': 4, '+': 5, '-': 5,
         '*': 6, '/': 6}


def expr_text(e, outer=0):
    k = e[0]
    if k == 'n':
        t = num_text(e[1])
        return '(%s)' % t if (t.startswith('-') and outer > 0) else t
    if k == 'v':
        return e[1]
    if k == 's':
        return '"%s"' % e[1]
    if k == 'neg':
        return '-%s' % expr_text(e[1], 9)
    if k == 'b':
        p = _PREC[e[1]]
        word = e[1] in ('AND', 'OR')
        t = '%s%s%s' % (expr_text(e[2], p), (' %s ' % e[1]) if word else e[1],
                        expr_text(e[3], p + 1))
        return '(%s)' % t if p <= outer else t
    raise ValueError(e)


# --------------------------------------------------------------------------------------------
# program text

def atom_text(a):
    k = a['k']
    if k == 'pr':
        return 'PRINT#1,' + ','.join(expr_text(x) for x in a['items'])
    if k == 'let':
        return '%s=%s' % (a['var'], expr_text(a['e']))
    if k == 'for':
        t = 'FOR %s=%s TO %s' % (a['var'], expr_text(a['a']), expr_text(a['b']))
        if a.get('s') is not None:
            t += ' STEP %s' % expr_text(a['s'])
        return t
    if k == 'next':
        names = [s[0] for s in a['slots']]
        if names == [None]:
            return 'NEXT'
        return 'NEXT ' + ','.join(names)
    if k == 'while':
        return 'WHILE ' + expr_text(a['c'])
    if k == 'wend':
        return 'WEND'
    if k == 'goto':
        return 'GOTO %d' % a['to']
    if k == 'gosub':
        return 'GOSUB %d' % a['to']
    if k == 'return':
        return 'RETURN' + ('' if a.get('to') is None else ' %d' % a['to'])
    if k == 'if':
        t = 'IF %s %s' % (expr_text(a['c']), a.get('kw', 'THEN'))
        if a.get('then') is not None:
            t += ' %d' % a['then']
        if a.get('else_line') is not None:
            t += ' ELSE %d' % a['else_line']
        return t
    if k == 'else':
        return 'ELSE'
    if k == 'on':
        return 'ON %s %s %s' % (expr_text(a['e']), a['kind'].upper(),
                                ','.join(str(n) for n in a['to']))
    if k == 'end':
        return 'END'
    if k == 'rem':
        return "REM"
    if k == 'onerr':
        return 'ON ERROR GOTO %d' % a['to']
    if k == 'resume':
        m = a.get('mode', 'same')
        return 'RESUME' + ('' if m == 'same' else ' 0' if m == 'zero' else ' NEXT' if m == 'next'
                           else ' %d' % m)
    if k == 'error':
        return 'ERROR ' + expr_text(a['e'])
    if k in ('fault', 'fnprint'):
        return a['text']
    if k == 'raw':
        return a['text']
    raise ValueError(a)


def line_text(num, atoms):
    out = '%d ' % num if num is not None else ''
    prev = None
    for a in atoms:
        t = atom_text(a)
        if prev is None:
            out += t
        elif a['k'] == 'else':
            out += ' ' + t
        elif prev['k'] == 'else' or (prev['k'] == 'if' and prev.get('then') is None):
            out += ' ' + t
        else:
            out += ':' + t
        prev = a
    return out


def program_text(prog):
    return [line_text(num, atoms) for num, atoms in prog['lines']]


# --------------------------------------------------------------------------------------------
# textual linking (GW-BASIC scans the text for the matching NEXT / WEND / ELSE)

def _flat_positions(prog):
    for li, (num, atoms) in enumerate(prog['lines']):
        for ai, a in enumerate(atoms):
            yield li, ai, a


def link_textual(prog):
    """Compute for.nx, while.wend, if.else_at by nesting scans in text order. Returns new dicts
    {(li, ai): link} without modifying the program."""
    pos = list(_flat_positions(prog))
    links = {}
    for idx, (li, ai, a) in enumerate(pos):
        if a['k'] == 'for':
            depth = 0
            found = None
            for (lj, aj, b) in pos[idx + 1:]:
                if b['k'] == 'for':
                    depth += 1
                elif b['k'] == 'next':
                    for sl in range(len(b['slots'])):
                        if depth == 0:
                            found = [lj, aj, sl]
                            break
                        depth -= 1
                    if found:
                        break
            links[(li, ai)] = found
        elif a['k'] == 'while':
            depth = 0
            found = None
            for (lj, aj, b) in pos[idx + 1:]:
                if b['k'] == 'while':
                    depth += 1
                elif b['k'] == 'wend':
                    if depth == 0:
                        found = [lj, aj]
                        break
                    depth -= 1
            links[(li, ai)] = found
        elif a['k'] == 'if':
            # matching ELSE marker on the same line: nested IFs consume one ELSE each
            depth = 0
            found = None
            atoms = prog['lines'][li][1]
            if a.get('else_line') is None:
                for aj in range(ai + 1, len(atoms)):
                    b = atoms[aj]
                    if b['k'] == 'if':
                        if b.get('else_line') is None:
                            depth += 1
                    elif b['k'] == 'else':
                        if depth == 0:
                            found = aj + 1
                            break
                        depth -= 1
            links[(li, ai)] = found
    return links


def apply_links(prog, links):
    for (li, ai), v in links.items():
        a = prog['lines'][li][1][ai]
        if a['k'] == 'for':
            a['nx'] = v
        elif a['k'] == 'while':
            a['wend'] = v
        elif a['k'] == 'if':
            a['else_at'] = v
    return prog


def check_links(prog):
    """Tree-derived links must equal the textual ones (generator discipline)."""
    for (li, ai), v in link_textual(prog).items():
        a = prog['lines'][li][1][ai]
        key = {'for': 'nx', 'while': 'wend', 'if': 'else_at'}[a['k']]
        if a.get(key) != v:
            return 'line %d atom %d (%s): tree link %r, textual %r' % (
                prog['lines'][li][0], ai, a['k'], a.get(key), v)
    return None


# --------------------------------------------------------------------------------------------
# the machine

class RefResult(object):
    def __init__(self):
        self.trace = []          # Fractions and strs, in PRINT#1 order
        self.final = None        # (code, line|None) when the program stopped with an error
        self.errors = []         # every untrapped error, in order (one per RUN / direct line)
        self.unspec = None       # reason, when the semantics stop being fixed
        self.budget = False
        self.stats = {}
        self.flags = set()
        self.ztlist_lines = set()   # lines of NEXT lists entered in the middle by a zero-trip FOR
        self.vars = {}

    def __repr__(self):
        return 'RefResult(trace=%r final=%r unspec=%r budget=%r flags=%r)' % (
            [str(x) for x in self.trace], self.final, self.unspec, self.budget,
            sorted(self.flags))


DIRECT = -1     # line index of the direct line


class Ref(object):

    def __init__(self, prog, max_steps=20000, resume20_trappable=False, direct=None):
        self.lines = prog['lines']
        self.index = {num: i for i, (num, _a) in enumerate(self.lines)}
        self.direct = direct or []
        self.max_steps = max_steps
        self.resume20_trappable = resume20_trappable
        self.vars = {}
        self.err_line = None
        self.cur = None
        self.cur_li = 0
        self.zt_cont = False
        self.reset_run()
        self.res = RefResult()
        self.stats = {'steps': 0, 'back': 0, 'exits': 0, 'zerotrip': 0, 'maxdepth': 0,
                      'trapped': 0, 'gosubs': 0, 'maxgosub': 0, 'iters': 0, 'on_taken': 0,
                      'on_fall': 0, 'if_true': 0, 'if_false': 0, 'resumed': 0}

    def reset_run(self):
        self.fors = []
        self.whiles = []
        self.gosubs = []
        self.on_error = 0
        self.in_handler = False
        self.resume_pos = None
        self.vars['ERR'] = F(0)
        self.vars['ERL'] = F(0)

    # -- helpers ----------------------------------------------------------------------------
    def atoms_of(self, li):
        return self.direct if li == DIRECT else self.lines[li][1]

    def linenum(self, li):
        return 65535 if li == DIRECT else self.lines[li][0]

    def norm(self, pc):
        """Normalise a position: past the end of a line -> start of the next; None at the end."""
        li, ai = pc
        while True:
            if li == DIRECT:
                return (li, ai) if ai < len(self.direct) else None
            if li >= len(self.lines):
                return None
            if ai < len(self.lines[li][1]):
                return (li, ai)
            li, ai = li + 1, 0

    def target(self, num):
        if num not in self.index:
            raise _Err(8)
        return (self.index[num], 0)

    def getvar(self, name):
        v = self.vars.get(name, F(0))
        if v is POISON:
            raise Unspec('read of a counter whose value the statement does not fix: ' + name)
        return v

    def setvar(self, name, v):
        if v is not POISON:
            if name.endswith('%'):
                v = round_half_away(v)
                if not -32768 <= v <= 32767:
                    raise _Err(6)
                v = F(v)
            elif not is_single(v):
                raise Unspec('inexact single value')
        self.vars[name] = v

    def ev(self, e):
        k = e[0]
        if k == 'n':
            return F(e[1])
        if k == 'v':
            return self.getvar(e[1])
        if k == 's':
            return e[1]
        if k == 'neg':
            return -self.ev(e[1])
        if k == 'b':
            op = e[1]
            a, b = self.ev(e[2]), self.ev(e[3])
            if isinstance(a, str) or isinstance(b, str):
                raise Unspec('string operand')
            if op in RELOPS:
                return F(-1) if RELOPS[op](a, b) else F(0)
            if op in ('AND', 'OR'):
                ia, ib = round_half_away(a), round_half_away(b)
                if not (-32768 <= ia <= 32767 and -32768 <= ib <= 32767):
                    raise _Err(6)
                r = (ia & 0xffff) & (ib & 0xffff) if op == 'AND' else (ia & 0xffff) | (ib & 0xffff)
                return F(s16(r))
            if op == '+':
                r = a + b
            elif op == '-':
                r = a - b
            elif op == '*':
                r = a * b
            elif op == '/':
                if b == 0:
                    raise Unspec('division by zero in an expression')
                r = a / b
            else:
                raise ValueError(op)
            if not is_single(r):
                raise Unspec('inexact single arithmetic')
            return r
        raise ValueError(e)

    def depth(self):
        d = len(self.fors) + len(self.whiles) + len(self.gosubs)
        if d > self.stats['maxdepth']:
            self.stats['maxdepth'] = d

    def jump(self, frm, to):
        """Record a taken jump for the statistics (backward = to an earlier or the same place)."""
        if to is not None and frm is not None and to <= frm and frm[0] != DIRECT:
            self.stats['back'] += 1

    # -- running ------------------------------------------------------------------------------
    def run(self, start=None, direct=False):
        res = self.res
        if direct:
            pc = self.norm((DIRECT, 0))
        else:
            pc = self.norm(start if start is not None else (0, 0))
        try:
            self._loop(pc)
        except _Stop:
            pass
        except Unspec as e:
            res.unspec = str(e)
        res.stats = dict(self.stats)
        res.vars = dict(self.vars)
        return res

    def _loop(self, pc):
        res = self.res
        while True:
            if pc is None:
                # fell off the end of the program (or of the direct line)
                if self.resume_pos is not None and self.cur_li != DIRECT:
                    res.final = (19, None)
                    res.errors.append(res.final)
                    res.flags.add('no-resume')
                return
            self.stats['steps'] += 1
            if self.stats['steps'] > self.max_steps:
                res.budget = True
                return
            self.cur = pc
            self.cur_li = pc[0]
            self.zt_cont = False
            self.err_line = None
            try:
                pc = self.step(pc)
                if pc is not None and pc[0] == DIRECT and self.cur[0] != DIRECT:
                    pc = self.norm(pc)
                elif pc is not None:
                    pc = self.norm(pc)
            except _Err as e:
                pc = self.raise_error(e.code)

    def raise_error(self, code):
        res = self.res
        if self.zt_cont:
            raise Unspec('error while continuing a NEXT list after a zero-trip loop')
        line = self.linenum(self.cur[0])
        if self.err_line is not None:
            line = self.err_line
            self.res.flags.add('error-line-elsewhere')
        self.vars['ERR'] = F(code)
        self.vars['ERL'] = F(line)
        if self.on_error and not self.in_handler:
            self.in_handler = True
            self.resume_pos = self.cur
            self.stats['trapped'] += 1
            if self.fors or self.whiles or self.gosubs:
                res.flags.add('trap-in-nest')
            if self.cur[1] > 0:
                res.flags.add('trap-not-first')
            return self.norm(self.target(self.on_error))
        if self.in_handler:
            res.flags.add('error-in-handler')
        if self.cur[0] == DIRECT:
            line = None             # direct-mode messages carry no line number
        res.final = (code, line)
        res.errors.append(res.final)
        raise _Stop()

    def after(self, pc):
        return (pc[0], pc[1] + 1)

    def step(self, pc):
        li, ai = pc[0], pc[1]
        a = self.atoms_of(li)[ai]
        k = a['k']
        nxt = (li, ai + 1)
        res = self.res
        if k == 'pr':
            vals = [self.ev(x) for x in a['items']]
            res.trace.extend(vals)
            return nxt
        if k == 'let':
            self.setvar(a['var'], self.ev(a['e']))
            return nxt
        if k == 'rem':
            return (li + 1, 0) if li != DIRECT else None
        if k == 'raw':
            return nxt
        if k == 'goto':
            t = self.target(a['to'])
            self.jump(pc, t)
            return t
        if k == 'gosub':
            t = self.target(a['to'])
            self.gosubs.append(nxt)
            self.stats['gosubs'] += 1
            self.stats['maxgosub'] = max(self.stats['maxgosub'], len(self.gosubs))
            self.depth()
            return t
        if k == 'return':
            if not self.gosubs:
                raise _Err(3)
            ret = self.gosubs.pop()
            if a.get('to') is not None:
                return self.target(a['to'])
            return ret
        if k == 'end':
            res.flags.add('end')
            if self.in_handler:
                res.flags.add('end-in-handler')
            self.in_handler = False
            self.resume_pos = None
            raise _Stop()
        if k == 'if':
            c = self.ev(a['c'])
            if isinstance(c, str):
                raise _Err(13)
            if c != 0:
                self.stats['if_true'] += 1
                if a.get('then') is not None:
                    t = self.target(a['then'])
                    self.jump(pc, t)
                    return t
                return nxt
            self.stats['if_false'] += 1
            if a.get('else_line') is not None:
                t = self.target(a['else_line'])
                self.jump(pc, t)
                return t
            if a.get('else_at') is not None:
                return (li, a['else_at'])
            return (li + 1, 0) if li != DIRECT else None
        if k == 'else':
            # reached the end of a THEN clause: the rest of the line is skipped
            return (li + 1, 0) if li != DIRECT else None
        if k == 'on':
            v = self.ev(a['e'])
            n = round_half_away(v)
            if not -32768 <= n <= 32767:
                raise _Err(6)
            if n < 0 or n > 255:
                raise _Err(5)
            if 1 <= n <= len(a['to']):
                t = self.target(a['to'][n - 1])
                self.stats['on_taken'] += 1
                if a['kind'] == 'gosub':
                    self.gosubs.append(nxt)
                    self.stats['gosubs'] += 1
                    self.stats['maxgosub'] = max(self.stats['maxgosub'], len(self.gosubs))
                    self.depth()
                else:
                    self.jump(pc, t)
                return t
            self.stats['on_fall'] += 1
            return nxt
        if k == 'for':
            return self.do_for(pc, a)
        if k == 'next':
            return self.do_next(pc, a, 0)
        if k == 'while':
            if a.get('wend') is None:
                raise _Err(29)
            c = self.ev(a['c'])
            if c != 0:
                self.whiles.append({'wend': (a['wend'][0], a['wend'][1]), 'at': pc})
                self.depth()
                return nxt
            self.stats['zerotrip'] += 1
            return (a['wend'][0], a['wend'][1] + 1)
        if k == 'wend':
            while self.whiles and self.whiles[-1]['wend'] != (li, ai):
                self.whiles.pop()
                self.stats['exits'] += 1
            if not self.whiles:
                raise _Err(30)
            w = self.whiles[-1]
            wa = self.atoms_of(w['at'][0])[w['at'][1]]
            c = self.ev(wa['c'])
            if c != 0:
                self.stats['back'] += 1
                self.stats['iters'] += 1
                return self.after(w['at'])
            self.whiles.pop()
            return nxt
        if k == 'onerr':
            if a['to'] != 0 and a['to'] not in self.index:
                raise _Err(8)
            self.on_error = a['to']
            if a['to'] == 0 and self.in_handler:
                # GW-BASIC: stops with the message of the error being handled
                res.flags.add('onerr0-in-handler')
                erl = int(self.vars['ERL'])
                res.final = (int(self.vars['ERR']), None if erl == 65535 else erl)
                res.errors.append(res.final)
                raise _Stop()
            return nxt
        if k == 'resume':
            if self.resume_pos is None:
                if not self.resume20_trappable:
                    if self.on_error:
                        res.flags.add('resume20-with-trap')
                    self.on_error = 0
                raise _Err(20)
            rp = self.resume_pos
            self.resume_pos = None
            self.in_handler = False
            self.vars['ERR'] = F(0)
            self.stats['resumed'] += 1
            m = a.get('mode', 'same')
            if m in ('same', 'zero'):
                return rp
            if m == 'next':
                ra = self.atoms_of(rp[0])[rp[1]]
                if ra['k'] == 'if':
                    raise Unspec('RESUME NEXT after an error in an IF condition')
                return self.after(rp)
            return self.target(m)
        if k == 'error':
            v = self.ev(a['e'])
            n = round_half_away(v)
            if not -32768 <= n <= 32767:
                raise _Err(6)
            if not 1 <= n <= 255:
                raise _Err(5)
            raise _Err(n)
        if k == 'fault':
            return self.do_fault(pc, a)
        if k == 'fnprint':
            # PRINT#1,<function call>: fails like a fault, else writes the call's value
            nx_ = self.do_fault(pc, a)
            res.trace.append(F(a['prints']))
            return nx_
        raise ValueError(a)

    # fault statements: {'k':'fault','text':..., 'code':n, 'ok': expr|None, 'sets': var|None}
    # raise `code` unless the `ok` expression is non-zero ("repaired"); when they succeed they
    # assign `val` (default 1) to `sets` (if given).
    def do_fault(self, pc, a):
        ok = a.get('ok')
        if ok is None or self.ev(ok) == 0:
            if a.get('soft') and not self.on_error:
                # float Division by zero / Overflow without a trap: GW-BASIC prints the message
                # and continues with machine infinity; the property statement says "stops"
                raise Unspec('soft arithmetic error without a trap')
            raise _Err(a['code'])
        if a.get('sets'):
            self.setvar(a['sets'], self.ev(a['val']) if a.get('val') is not None else F(1))
        return self.after(pc)

    def do_for(self, pc, a):
        var = a['var']
        isint = var.endswith('%')
        vals = []
        for key in ('a', 'b', 's'):
            e = a.get(key)
            if e is None:
                vals.append(F(1))
                continue
            v = self.ev(e)
            if isinstance(v, str):
                raise _Err(13)
            if isint:
                v = round_half_away(v)
                if not -32768 <= v <= 32767:
                    self.vars[var] = POISON
                    raise _Err(6)
                v = F(v)
            vals.append(v)
        start, stop, step = vals
        if a.get('nx') is None:
            raise _Err(26)
        nx = tuple(a['nx'])
        nvar = self.atoms_of(nx[0])[nx[1]]['slots'][nx[2]][0]
        if nvar is not None and nvar != var and nvar + '!' != var and nvar != var + '!':
            # the NEXT found by the scan names another variable: NEXT without FOR, reported for
            # the NEXT's line (recorded GW-BASIC output: tests/basic/unsorted/FORNEXT, line 260)
            self.err_line = self.linenum(nx[0])
            raise _Err(1)
        self.setvar(var, start)
        if step == 0:
            raise Unspec('FOR ... STEP 0')
        if (step > 0 and start > stop) or (step < 0 and start < stop):
            # zero trips: continue after the matching NEXT variable
            self.stats['zerotrip'] += 1
            self.res.flags.add('zerotrip')
            if isint and not -32768 <= start + step <= 32767:
                raise Unspec('zero-trip loop whose start+step leaves the integer range')
            self.vars[var] = POISON
            na = self.atoms_of(nx[0])[nx[1]]
            if nx[2] + 1 < len(na['slots']):
                self.res.flags.add('zerotrip-into-next-list')
                self.res.ztlist_lines.add(self.linenum(nx[0]))
                self.zt_cont = True
                return self.do_next((nx[0], nx[1]), na, nx[2] + 1)
            return (nx[0], nx[1] + 1)
        self.fors.append({'var': var, 'stop': stop, 'step': step, 'body': self.after(pc), 'nx': nx,
                          'exact': (stop - start) % step == 0})
        self.depth()
        return self.after(pc)

    def do_next(self, pc, a, first):
        li, ai = pc[0], pc[1]
        for sl in range(first, len(a['slots'])):
            here = (li, ai, sl)
            found = None
            for d in range(len(self.fors) - 1, -1, -1):
                if self.fors[d]['nx'] == here:
                    found = d
                    break
            if found is None:
                raise _Err(1)
            dropped = len(self.fors) - 1 - found
            if dropped:
                self.stats['exits'] += dropped
            del self.fors[found + 1:]
            ent = self.fors[-1]
            var = ent['var']
            v = self.getvar(var) + ent['step']
            if var.endswith('%') and not -32768 <= v <= 32767:
                self.vars[var] = POISON
                raise _Err(6)
            if not var.endswith('%') and not is_single(v):
                raise Unspec('inexact single counter')
            self.vars[var] = v
            passed = v > ent['stop'] if ent['step'] > 0 else v < ent['stop']
            if not passed:
                self.stats['back'] += 1
                self.stats['iters'] += 1
                return ent['body']
            self.fors.pop()
            if not ent['exact']:
                # manual: "equals stop+step"; GW-BASIC: first value past stop; they differ here
                self.vars[var] = POISON
        return (li, ai + 1)


def run_ref(prog, max_steps=20000, directs=(), resume20_trappable=False):
    """RUN the program, then execute each direct line (list of atoms). -> RefResult"""
    m = Ref(prog, max_steps=max_steps, resume20_trappable=resume20_trappable)
    res = m.run()
    for d in directs:
        if res.unspec or res.budget:
            break
        m.direct = d
        # a direct line is a fresh statement list; stacks persist, as does the trap
        m.res.final = None
        m.run(direct=True)
    return res


# --------------------------------------------------------------------------------------------
# a small parser for the recorded corpus programs (subset of BASIC text -> flat program)

_TOK = re.compile(
    r"""\s*(?:(\d+\.?\d*|\.\d+)[!%]?|([A-Za-z][A-Za-z0-9.]*[%!$]?)|("[^"]*"?)|"""
    r"""(<>|<=|>=|=<|=>|><|[-+*/=<>(),;:#?']))""")


class ParseSkip(Exception):
    """The corpus line uses something outside the modelled subset."""


class _P(object):
    def __init__(self, text):
        self.toks = []
        pos = 0
        text = text.rstrip()
        while pos < len(text):
            m = _TOK.match(text, pos)
            if not m:
                raise ParseSkip('cannot tokenise %r' % text[pos:])
            pos = m.end()
            if m.group(1):
                self.toks.append(('n', m.group(1)))
            elif m.group(2):
                self.toks.append(('w', m.group(2).upper()))
            elif m.group(3):
                self.toks.append(('s', m.group(3).strip('"')))
            else:
                self.toks.append(('o', m.group(4)))
        self.i = 0

    def peek(self):
        return self.toks[self.i] if self.i < len(self.toks) else (None, None)

    def take(self):
        t = self.peek()
        self.i += 1
        return t

    def accept(self, kind, val=None):
        t = self.peek()
        if t[0] == kind and (val is None or t[1] == val):
            self.i += 1
            return t
        return None

    def expect(self, kind, val=None):
        t = self.accept(kind, val)
        if t is None:
            raise ParseSkip('expected %s %s, got %r' % (kind, val, self.peek()))
        return t

    KEYWORDS = {'TO', 'STEP', 'THEN', 'ELSE', 'GOTO', 'GOSUB', 'AND', 'OR'}

    def expr(self, minp=0):
        t = self.peek()
        if t == ('o', '-'):
            self.take()
            left = ['neg', self.expr(7)]
        elif t == ('o', '('):
            self.take()
            left = self.expr(0)
            self.expect('o', ')')
        elif t[0] == 'n':
            self.take()
            v = F(t[1])
            left = ['n', int(v) if v.denominator == 1 else t[1]]
        elif t[0] == 's':
            self.take()
            left = ['s', t[1]]
        elif t[0] == 'w' and t[1] not in self.KEYWORDS:
            self.take()
            if self.peek() == ('o', '('):
                raise ParseSkip('function or array')
            name = t[1]
            if name.endswith('$') or name.endswith('#'):
                raise ParseSkip('string/double variable')
            left = ['v', name]
        else:
            raise ParseSkip('expression expected at %r' % (t,))
        while True:
            t = self.peek()
            op = None
            if t[0] == 'o' and t[1] in _PREC:
                op = t[1]
            elif t[0] == 'w' and t[1] in ('AND', 'OR'):
                op = t[1]
            if op is None or _PREC[op] < minp:
                return left
            self.take()
            right = self.expr(_PREC[op] + 1)
            left = ['b', op, left, right]

    def lineno(self):
        t = self.expect('n')
        return int(t[1])

    def statements(self):
        """Parse statements up to the end of the line -> list of atoms."""
        atoms = []
        while True:
            atoms.extend(self.statement())
            if self.accept('o', ':'):
                continue
            if self.peek()[0] is None:
                return atoms
            if self.peek() == ('w', 'ELSE'):
                return atoms
            raise ParseSkip('junk after statement: %r' % (self.peek(),))

    def statement(self):
        t = self.peek()
        if t[0] is None or t == ('o', ':'):
            return []
        if t == ('o', "'"):
            self.i = len(self.toks)
            return [{'k': 'rem'}]
        if t == ('o', '?'):
            self.toks[self.i] = t = ('w', 'PRINT')
        if t[0] != 'w':
            raise ParseSkip('statement expected: %r' % (t,))
        w = t[1]
        if w in ('REM',):
            self.i = len(self.toks)
            return [{'k': 'rem'}]
        self.take()
        if w in ('TRON', 'CLOSE'):
            return []
        if w == 'OPEN':
            self.i = len(self.toks)
            return [{'k': 'raw', 'text': 'OPEN "O",1,"T"'}]
        if w == 'PRINT':
            if not self.accept('o', '#'):
                # console PRINT: no trace
                while self.peek()[0] is not None and self.peek() != ('o', ':') and \
                        self.peek() != ('w', 'ELSE'):
                    self.take()
                return []
            self.expect('n')
            self.expect('o', ',')
            items = []
            while self.peek()[0] is not None and self.peek() != ('o', ':') and \
                    self.peek() != ('w', 'ELSE'):
                if self.accept('o', ',') or self.accept('o', ';'):
                    continue
                items.append(self.expr())
            return [{'k': 'pr', 'items': items}]
        if w == 'FOR':
            var = self.expect('w')[1]
            self.expect('o', '=')
            a = self.expr()
            self.expect('w', 'TO')
            b = self.expr()
            s = None
            if self.accept('w', 'STEP'):
                s = self.expr()
            return [{'k': 'for', 'var': var, 'a': a, 'b': b, 's': s}]
        if w == 'NEXT':
            slots = []
            while self.peek()[0] == 'w' and self.peek()[1] not in self.KEYWORDS:
                slots.append([self.take()[1], None])
                if not self.accept('o', ','):
                    break
            return [{'k': 'next', 'slots': slots or [[None, None]]}]
        if w == 'WHILE':
            return [{'k': 'while', 'c': self.expr()}]
        if w == 'WEND':
            return [{'k': 'wend'}]
        if w == 'GOTO':
            return [{'k': 'goto', 'to': self.lineno()}]
        if w == 'GOSUB':
            return [{'k': 'gosub', 'to': self.lineno()}]
        if w == 'RETURN':
            to = self.lineno() if self.peek()[0] == 'n' else None
            return [{'k': 'return', 'to': to}]
        if w == 'END':
            return [{'k': 'end'}]
        if w == 'RESUME':
            if self.accept('w', 'NEXT'):
                return [{'k': 'resume', 'mode': 'next'}]
            if self.peek()[0] == 'n':
                n = self.lineno()
                return [{'k': 'resume', 'mode': n if n else 'zero'}]
            return [{'k': 'resume', 'mode': 'same'}]
        if w == 'ERROR':
            return [{'k': 'error', 'e': self.expr()}]
        if w == 'ON':
            if self.accept('w', 'ERROR'):
                self.expect('w', 'GOTO')
                return [{'k': 'onerr', 'to': self.lineno()}]
            e = self.expr()
            kind = self.expect('w')[1]
            if kind not in ('GOTO', 'GOSUB'):
                raise ParseSkip('ON ... %s' % kind)
            to = [self.lineno()]
            while self.accept('o', ','):
                to.append(self.lineno())
            return [{'k': 'on', 'e': e, 'kind': kind.lower(), 'to': to}]
        if w == 'IF':
            c = self.expr()
            kw = self.take()
            if kw not in (('w', 'THEN'), ('w', 'GOTO')):
                raise ParseSkip('IF without THEN')
            a = {'k': 'if', 'c': c, 'kw': kw[1], 'then': None, 'else_line': None}
            out = [a]
            if self.peek()[0] == 'n':
                a['then'] = self.lineno()
            else:
                out.extend(self.statements())
            if self.accept('w', 'ELSE'):
                if self.peek()[0] == 'n' and a['then'] is not None:
                    a['else_line'] = self.lineno()
                else:
                    out.append({'k': 'else'})
                    if self.peek()[0] == 'n':
                        out.append({'k': 'goto', 'to': self.lineno()})
                    else:
                        out.extend(self.statements())
            return out
        if w == 'COLOR':
            start = self.i
            e = self.expr()
            txt = 'COLOR ' + expr_text(e)
            return [{'k': 'fault', 'text': txt, 'code': 5,
                     'ok': ['b', 'AND', ['b', '>=', e, ['n', 0]], ['b', '<=', e, ['n', 31]]]}]
        if w == 'LET':
            w = self.expect('w')[1]
        if w in ('X', 'Y') and (self.peek()[0] is None or self.peek() == ('o', ':')):
            return [{'k': 'fault', 'text': w, 'code': 2, 'ok': None}]
        if self.accept('o', '='):
            if w.endswith('$') or w.endswith('#'):
                raise ParseSkip('string/double assignment')
            return [{'k': 'let', 'var': w, 'e': self.expr()}]
        raise ParseSkip('unsupported statement %s' % w)


def parse_basic(text):
    """Corpus program text -> flat program with textual links. Raises ParseSkip."""
    lines = []
    for raw in text.replace('\r', '\n').split('\n'):
        raw = raw.strip('\x1a \t')
        if not raw:
            continue
        m = re.match(r'(\d+)\s*(.*)$', raw)
        if not m:
            raise ParseSkip('no line number: %r' % raw)
        body = m.group(2)
        if body.startswith("'"):
            atoms = [{'k': 'rem'}]
        else:
            p = _P(body)
            atoms = p.statements()
            if p.peek()[0] is not None:
                raise ParseSkip('junk: %r' % (p.peek(),))
        lines.append([int(m.group(1)), atoms or [{'k': 'rem'}]])
    # later duplicates replace earlier lines; order by number
    byn = {}
    for num, atoms in lines:
        byn[num] = atoms
    prog = {'lines': [[n, byn[n]] for n in sorted(byn)]}
    return apply_links(prog, link_textual(prog))


def parse_trace(data):
    """Trace file bytes -> list of Fractions / strs."""
    out = []
    for tok in data.replace(b'\x1a', b' ').split():
        t = tok.decode('latin-1')
        try:
            out.append(F(t))
        except (ValueError, ZeroDivisionError):
            out.append(t)
    return out


def trace_tokens(trace):
    """Reference trace -> comparable tokens (strings are split like the file would be)."""
    out = []
    for x in trace:
        if isinstance(x, str):
            for part in x.split():
                try:
                    out.append(F(part))
                except (ValueError, ZeroDivisionError):
                    out.append(part)
        else:
            out.append(x)
    return out


# --------------------------------------------------------------------------------------------
# block tree -> flat program
#
# case = {'main': block, 'subs': [block, ...], 'handler': {...} (C21 only)}
# block = [stmt, ...];  stmt = {'t': type, ...}.  See vlib/props/c19_flow.py for the generator.

MAX_LINE_ATOMS = 7
MAX_INLINE_ATOMS = 7


class _Line(object):
    __slots__ = ('labels', 'atoms', 'closed')

    def __init__(self):
        self.labels = []
        self.atoms = []
        self.closed = False


class _Ctx(object):
    def __init__(self, r, loops=(), in_for=False, in_while=False, inline=False, need_else=False):
        self.r = r
        self.loops = list(loops)
        self.in_for = in_for
        self.in_while = in_while
        self.inline = inline
        self.need_else = need_else

    def child(self, **kw):
        c = _Ctx(self.r, self.loops, self.in_for, self.in_while, self.inline, self.need_else)
        for k, v in kw.items():
            setattr(c, k, v)
        return c


def _walk(block):
    for st in block:
        yield st
        for key in ('body', 'then', 'else'):
            if isinstance(st.get(key), list):
                for x in _walk(st[key]):
                    yield x
        if st.get('t') == 'on' and st.get('kind') == 'goto':
            for arm in st.get('arms', []):
                for x in _walk(arm):
                    yield x


def count_atoms(block):
    """Upper bound of the atoms an inline rendering of the block needs; None if not inlineable."""
    n = 0
    for i, st in enumerate(block):
        t = st['t']
        if t == 'err':
            n += 6 if st.get('again') else 3
        elif t in ('tag', 'pv', 'gosub', 'bump', 'exit', 'return', 'end', 'fault', 'snext',
                 'swend', 'onerr0'):
            n += 1
        elif t == 'for':
            sub = count_atoms(st['body'])
            if sub is None or st.get('bv'):
                return None
            n += sub + 2 + (1 if st.get('pa') else 0)
        elif t == 'if':
            if i != len(block) - 1 or st.get('form') != 'inline':
                return None
            a = count_atoms(st['then'])
            b = count_atoms(st['else']) if st.get('else') is not None else 0
            if a is None or b is None:
                return None
            n += 1 + max(a, 1) + 1 + max(b, 1)
        else:
            return None
    return n


class Compiler(object):

    def __init__(self, case):
        self.case = case
        self.lines = []
        self.cur = None
        self.pending = []
        self.nlabels = 0
        self.tagno = 0
        self.excluded = 0
        self.features = set()
        self.where = {}          # label -> _Line
        allst = list(_walk(case['main']))
        for sb in case.get('subs', []):
            allst.extend(_walk(sb))
        kinds = set(st['t'] for st in allst)
        self.has_fornonext = 'fornonext' in kinds
        self.has_whilenowend = 'whilenowend' in kinds
        # statements that stop a trap-less program are capped per program (they hide the rest)
        self.fatal_left = case.get('maxfatal', 1)
        self.nsubs = len(case.get('subs', []))
        self.sublabels = [self.label() for _ in range(self.nsubs)]

    # -- emission -------------------------------------------------------------------------
    def label(self):
        self.nlabels += 1
        return ('L', self.nlabels)

    def place(self, lab):
        self.pending.append(lab)
        self.cur = None

    def newline(self):
        self.cur = None

    def emit(self, atom, nl=False, inline=False):
        cur = self.cur
        if cur is None or (not inline and (nl or len(cur.atoms) >= MAX_LINE_ATOMS)):
            cur = _Line()
            cur.labels = self.pending
            for lab in self.pending:
                self.where[lab] = cur
            self.pending = []
            self.lines.append(cur)
            self.cur = cur
        cur.atoms.append(atom)
        return cur, len(cur.atoms) - 1

    def fatal(self):
        if self.fatal_left <= 0:
            return False
        self.fatal_left -= 1
        return True

    def tag(self, ctx, nl=False):
        self.tagno += 1
        return self.emit({'k': 'pr', 'items': [['n', 1000 + self.tagno]]}, nl, ctx.inline)

    # -- names ----------------------------------------------------------------------------
    @staticmethod
    def name(prefix, r, d, ty=''):
        return '%s%d%d%s' % (prefix, r, d, ty)

    def cond(self, spec, ctx):
        if spec['k'] == 'ctr' and ctx.loops:
            lp = ctx.loops[-1 - (spec['up'] % len(ctx.loops))]
            c = spec['c']
            if lp['kind'] == 'for':
                # c counts iterations: compare with the counter value of the c-th trip
                fs = lp['st']
                c = F(fs['a']) + F(c) * F(1 if fs.get('s') is None else fs['s'])
                c = int(c) if c.denominator == 1 else float(c)
                if not -32768 <= c <= 32767:
                    c = fs['a']
            return ['b', spec['op'], ['v', lp['var']], ['n', c]]
        if spec['k'] == 'ctr':
            return ['n', 1 if spec['c'] % 2 else 0]
        return ['n', spec['v']]

    def selector(self, spec, ctx):
        if spec['k'] == 'ctr':
            # integer-valued counters only (no .5 rounding questions): (ctr AND 3) + c
            ok = [lp for lp in ctx.loops if not lp['var'].endswith('!')]
            if ok:
                lp = ok[-1 - (spec['up'] % len(ok))]
                e = ['b', 'AND', ['v', lp['var']], ['n', 3]]
                if spec.get('c'):
                    e = ['b', '+', e, ['n', spec['c']]]
                return e
            return ['n', spec.get('c', 0) % 4]
        v = spec['v']
        if (v <= -0.5 or v >= 255.5) and not self.fatal():
            v = int(abs(v)) % 5
        return ['n', v]

    # -- blocks ---------------------------------------------------------------------------
    def block(self, blk, ctx):
        skips = []      # [sibling index, label]
        for i, st in enumerate(blk):
            for ent in [s for s in skips if s[0] == i]:
                self.place(ent[1])
            skips = [s for s in skips if s[0] != i]
            if st['t'] == 'skip':
                if ctx.inline:
                    self.tag(ctx)
                    continue
                lab = self.label()
                self.features.add('goto-forward')
                self.emit({'k': 'goto', 'to': lab}, st.get('nl', False))
                skips.append([i + 1 + st['n'], lab])
                continue
            self.stmt(st, ctx, last=(i == len(blk) - 1))
        for ent in skips:
            self.place(ent[1])

    def stmt(self, st, ctx, last=False):
        t = st['t']
        nl = bool(st.get('nl')) and not ctx.inline
        inl = ctx.inline
        if t == 'tag':
            self.tag(ctx, nl)
        elif t == 'pv':
            if not ctx.loops:
                self.tag(ctx, nl)
            else:
                lp = ctx.loops[-1 - (st.get('up', 0) % len(ctx.loops))]
                self.emit({'k': 'pr', 'items': [['v', lp['var']]]}, nl, inl)
        elif t == 'bump':
            fl = [lp for lp in ctx.loops if lp['kind'] == 'for']
            if not fl:
                self.tag(ctx, nl)
            else:
                lp = fl[-1 - (st.get('up', 0) % len(fl))]
                self.features.add('counter-modified')
                # always in the direction of the step (the other way never terminates)
                sgn = -1 if (lp['st'].get('s') or 1) < 0 else 1
                self.emit({'k': 'let', 'var': lp['var'],
                           'e': ['b', '+', ['v', lp['var']], ['n', abs(st['d']) * sgn]]}, nl, inl)
        elif t == 'gosub':
            el = list(range(ctx.r + 1, self.nsubs + 1))
            if not el:
                self.tag(ctx, nl)
            else:
                k = el[st['k'] % len(el)]
                self.features.add('gosub')
                self.emit({'k': 'gosub', 'to': self.sublabels[k - 1]}, nl, inl)
        elif t == 'return':
            if ctx.r == 0 and not self.fatal():
                self.tag(ctx, nl)
            else:
                self.features.add('early-return' if ctx.r else 'stray-return')
                self.emit({'k': 'return'}, nl, inl)
        elif t == 'end':
            self.features.add('end')
            self.emit({'k': 'end'}, nl, inl)
        elif t == 'exit':
            if not ctx.loops:
                self.tag(ctx, nl)
            else:
                lp = ctx.loops[-1 - (st.get('up', 0) % len(ctx.loops))]
                if lp['after'] is None:
                    lp['after'] = self.label()
                self.features.add('early-exit')
                self.emit({'k': 'goto', 'to': lp['after']}, nl, inl)
        elif t == 'snext':
            if ctx.in_for or self.has_fornonext or not self.fatal():
                self.tag(ctx, nl)
            else:
                self.features.add('stray-next')
                self.emit({'k': 'next', 'slots': [[st.get('var'), None]]}, nl, inl)
        elif t == 'swend':
            if ctx.in_while or self.has_whilenowend or not self.fatal():
                self.tag(ctx, nl)
            else:
                self.features.add('stray-wend')
                self.emit({'k': 'wend'}, nl, inl)
        elif t == 'fornonext':
            if ctx.in_for or inl or not self.fatal():
                self.tag(ctx, nl)
            else:
                self.features.add('for-without-next')
                d = len(ctx.loops)
                self.emit({'k': 'for', 'var': self.name('N', ctx.r, d), 'a': ['n', 1],
                           'b': ['n', 3], 's': None, 'nx': None}, nl)
        elif t == 'whilenowend':
            if ctx.in_while or inl or not self.fatal():
                self.tag(ctx, nl)
            else:
                self.features.add('while-without-wend')
                self.emit({'k': 'while', 'c': ['n', st.get('v', 1)], 'wend': None}, nl)
        elif t == 'for':
            self.do_for(st, ctx, nl, last)
        elif t == 'while':
            self.do_while(st, ctx, nl)
        elif t == 'back':
            self.do_back(st, ctx, nl)
        elif t == 'if':
            self.do_if(st, ctx, nl, last)
        elif t == 'on':
            self.do_on(st, ctx, nl)
        else:
            self.extra(st, ctx, nl)

    def extra(self, st, ctx, nl):
        raise ValueError(st)

    def do_for(self, st, ctx, nl, last):
        inl = ctx.inline
        d = len(ctx.loops)
        ty = st.get('ty', '!')
        var = self.name('F', ctx.r, d, '%' if ty == '%' else ('!' if ty == '!' else ''))
        a, b, s = st['a'], st['b'], st.get('s')
        self.features.add('for-int' if ty == '%' else 'for-single')
        stop_e = ['n', b]
        bvar = None
        if st.get('bv') and not inl:
            bvar = self.name('Q', ctx.r, d)
            self.emit({'k': 'let', 'var': bvar, 'e': ['n', b]}, nl)
            stop_e = ['v', bvar]
            nl = False
            self.features.add('bound-in-variable')
        if st.get('bfrac') and ty == '%' and -32768 < b < 32767:
            # fractional bound of an integer loop: converted (rounded) once at FOR
            stop_e = ['n', b + (0.25 if st['bfrac'] > 0 else -0.25)]
            self.features.add('fractional-bound-int-loop')
        outer = [lp for lp in ctx.loops if not lp['var'].endswith('!')]
        if st.get('bref') is not None and outer and not bvar:
            # triangular loop: the stop bound is an enclosing integer-valued counter (+ offset)
            ov = outer[-1 - (st['bref'] % len(outer))]['var']
            stop_e = ['b', '+', ['v', ov], ['n', st.get('boff', 0)]] if st.get('boff') else ['v', ov]
            self.features.add('bound-from-outer-counter')
        fa = {'k': 'for', 'var': var, 'a': ['n', a], 'b': stop_e,
              's': None if s is None else ['n', s], 'nx': None}
        fline, fidx = self.emit(fa, nl, inl)
        lp = {'kind': 'for', 'var': var, 'after': None, 'st': st}
        sub = ctx.child(loops=ctx.loops + [lp], in_for=True)
        if bvar:
            self.emit({'k': 'let', 'var': bvar, 'e': ['n', a]})
        self.block(st['body'], sub)
        # close: own NEXT, or share the NEXT atom of the inner loop that ended the body
        eff_step = 1 if s is None else s
        static_zt = (eff_step > 0 and a > b) or (eff_step < 0 and a < b)
        dynamic_bound = stop_e[0] == 'v' or stop_e[0] == 'b'
        maybe_zt = static_zt or (dynamic_bound and not bvar)
        named = bool(st.get('named'))
        inner = lp.get('inner_next')      # (line, idx) of a combinable NEXT that ended the body
        if inner is not None and inner[0] is self.cur and inner[1] == len(self.cur.atoms) - 1 \
                and not self.pending:
            na = inner[0].atoms[inner[1]]
            na['slots'].append([var, None])
            nline, nidx = inner
            slot = len(na['slots']) - 1
            self.features.add('next-list')
        else:
            nvar = var if named else None
            if st.get('wrongnext') and not inl and self.fatal():
                nvar = 'ZZ'
                self.features.add('wrong-next-variable')
            relab = None
            if st.get('renext') and not inl and self.fatal():
                relab = self.label()
                self.place(relab)
                self.features.add('goto-next-after-loop')
            na = {'k': 'next', 'slots': [[nvar, None]]}
            nline, nidx = self.emit(na, bool(st.get('nnl')) and not inl, inl)
            slot = 0
            if relab is not None:
                self.emit({'k': 'pr', 'items': [['n', 1000 + self.tagno + 500]]})
                self.emit({'k': 'goto', 'to': relab})
        fa['nx'] = [nline, nidx, slot]
        if static_zt:
            self.features.add('zero-trip')
        # offer this NEXT to the enclosing FOR for combination (NEXT J,I)
        if st.get('comb') and last and ctx.loops and ctx.loops[-1]['kind'] == 'for' \
                and lp['after'] is None and not st.get('pa'):
            outer_named_ok = True
            if na['slots'][0][0] is None:
                # a list needs variable names
                na['slots'][0][0] = fa['var'] if slot == 0 else na['slots'][0][0]
            if static_zt and self.case.get('exclude_zt_list'):
                # (finding fixed in 7a22afc6: zero-trip loop whose NEXT variable is not the last of
                # a list raised Syntax error; the region is searched again)
                self.excluded += 1
                outer_named_ok = False
            if outer_named_ok:
                ctx.loops[-1]['inner_next'] = (nline, nidx)
        if lp['after'] is not None:
            self.place(lp['after'])
        if st.get('pa') and not maybe_zt and s != 0 and (F(b) - F(a)) % F(eff_step) == 0:
            self.emit({'k': 'pr', 'items': [['v', var]]}, False, inl)

    def do_while(self, st, ctx, nl):
        d = len(ctx.loops)
        var = self.name('W', ctx.r, d)
        self.features.add('while')
        self.emit({'k': 'let', 'var': var, 'e': ['n', st['n']]}, nl)
        wa = {'k': 'while', 'c': ['b', '>', ['v', var], ['n', 0]], 'wend': None}
        self.emit(wa, bool(st.get('wnl')))
        self.emit({'k': 'let', 'var': var, 'e': ['b', '-', ['v', var], ['n', 1]]})
        lp = {'kind': 'while', 'var': var, 'after': None}
        self.block(st['body'], ctx.child(loops=ctx.loops + [lp], in_while=True))
        relab = None
        if st.get('rewend') and self.fatal():
            relab = self.label()
            self.place(relab)
            self.features.add('goto-wend-after-loop')
        wline, widx = self.emit({'k': 'wend'}, bool(st.get('nnl')))
        wa['wend'] = [wline, widx]
        if relab is not None:
            self.tag(ctx)
            self.emit({'k': 'goto', 'to': relab})
        if lp['after'] is not None:
            self.place(lp['after'])

    def do_back(self, st, ctx, nl):
        d = len(ctx.loops)
        var = self.name('B', ctx.r, d)
        self.features.add('goto-backward')
        self.emit({'k': 'let', 'var': var, 'e': ['n', 0]}, nl)
        top = self.label()
        self.place(top)
        lp = {'kind': 'back', 'var': var, 'after': None}
        self.block(st['body'], ctx.child(loops=ctx.loops + [lp]))
        self.emit({'k': 'let', 'var': var, 'e': ['b', '+', ['v', var], ['n', 1]]},
                  bool(st.get('nnl')))
        self.emit({'k': 'if', 'c': ['b', '<', ['v', var], ['n', st['n']]], 'then': top,
                   'else_line': None, 'else_at': None, 'kw': st.get('kw', 'THEN')})
        self.newline()
        if lp['after'] is not None:
            self.place(lp['after'])

    def do_if(self, st, ctx, nl, last):
        c = self.cond(st['c'], ctx)
        then, els = st['then'], st.get('else')
        form = st.get('form', 'lines')
        if ctx.inline:
            form = 'inline'
        if form == 'inline':
            na = count_atoms([dict(st, form='inline')])
            room = MAX_INLINE_ATOMS if ctx.inline else MAX_INLINE_ATOMS + 2
            if na is None or (not ctx.inline and na > room):
                form = 'lines'
        if form == 'inline':
            self.features.add('if-inline')
            if self.cur is not None and not ctx.inline and \
                    len(self.cur.atoms) + count_atoms([dict(st, form='inline')]) > MAX_LINE_ATOMS + 3:
                nl = True
            if ctx.need_else and els is None:
                els = [{'t': 'tag'}]
            ia = {'k': 'if', 'c': c, 'then': None, 'else_line': None, 'else_at': None,
                  'kw': 'THEN'}
            line, idx = self.emit(ia, nl, ctx.inline)
            sub = ctx.child(inline=True, need_else=ctx.need_else or els is not None)
            self.block(then if then else [{'t': 'tag'}], sub)
            if els is not None:
                self.features.add('if-else')
                _l, eidx = self.emit({'k': 'else'}, False, True)
                ia['else_at'] = eidx + 1
                sub2 = ctx.child(inline=True, need_else=ctx.need_else)
                self.block(els if els else [{'t': 'tag'}], sub2)
            if not ctx.inline:
                self.newline()
            return
        # line-number forms
        v = st.get('variant', 0) % 4
        self.features.add('if-lines-%d' % v)
        kw = 'GOTO' if st.get('kw') == 'GOTO' else 'THEN'
        lend = self.label()
        if v == 0 and els is not None:
            lt, le = self.label(), self.label()
            self.emit({'k': 'if', 'c': c, 'then': lt, 'else_line': le, 'else_at': None, 'kw': kw},
                      nl)
            self.newline()
            self.place(lt)
            self.block(then, ctx)
            self.emit({'k': 'goto', 'to': lend})
            self.place(le)
            self.block(els, ctx)
            self.place(lend)
        elif v in (0, 1, 2):
            lt = self.label()
            self.emit({'k': 'if', 'c': c, 'then': lt, 'else_line': None, 'else_at': None,
                       'kw': kw}, nl)
            self.newline()
            if els:
                self.block(els, ctx)
            self.emit({'k': 'goto', 'to': lend})
            self.place(lt)
            self.block(then, ctx)
            self.place(lend)
        else:
            # inverted test jumps over the THEN block
            neg = ['b', '=', c, ['n', 0]]
            target = self.label() if els is not None else lend
            self.emit({'k': 'if', 'c': neg, 'then': target, 'else_line': None, 'else_at': None,
                       'kw': kw}, nl)
            self.newline()
            self.block(then, ctx)
            if els is not None:
                self.emit({'k': 'goto', 'to': lend})
                self.place(target)
                self.block(els, ctx)
            self.place(lend)

    def do_on(self, st, ctx, nl):
        sel = self.selector(st['sel'], ctx)
        if st['kind'] == 'gosub':
            el = list(range(ctx.r + 1, self.nsubs + 1))
            if not el:
                self.tag(ctx, nl)
                return
            to = [self.sublabels[el[k % len(el)] - 1] for k in st['subs']]
            self.features.add('on-gosub')
            self.emit({'k': 'on', 'e': sel, 'kind': 'gosub', 'to': to}, nl, ctx.inline)
            return
        if ctx.inline:
            self.tag(ctx)
            return
        self.features.add('on-goto')
        labs = [self.label() for _ in st['arms']]
        lend = self.label()
        self.emit({'k': 'on', 'e': sel, 'kind': 'goto', 'to': labs}, nl)
        if st.get('fall') is not False:
            self.tag(ctx)
        self.emit({'k': 'goto', 'to': lend})
        for lab, arm in zip(labs, st['arms']):
            self.place(lab)
            self.block(arm if arm else [{'t': 'tag'}], ctx)
            self.emit({'k': 'goto', 'to': lend})
        self.place(lend)

    # -- whole program --------------------------------------------------------------------
    def prologue(self):
        pass

    def epilogue(self):
        pass

    def compile(self):
        case = self.case
        self.prologue()
        self.block(case['main'], _Ctx(0))
        self.emit({'k': 'end'}, bool(case.get('endnl', True)))
        for k, sb in enumerate(case.get('subs', [])):
            self.place(self.sublabels[k])
            self.block(sb if sb else [{'t': 'tag'}], _Ctx(k + 1))
            self.emit({'k': 'return'})
        self.epilogue()
        if self.pending:
            self.emit({'k': 'rem'})
        return self.finish()

    def finish(self):
        step = self.case.get('numstep', 10)
        first = self.case.get('numfirst', 10)
        lineidx = {id(ln): i for i, ln in enumerate(self.lines)}
        number = {id(ln): first + i * step for i, ln in enumerate(self.lines)}

        def res(lab):
            if isinstance(lab, tuple) and lab and lab[0] == 'L':
                return number[id(self.where[lab])]
            return lab
        out = []
        for ln in self.lines:
            for a in ln.atoms:
                k = a['k']
                if k in ('goto', 'gosub', 'onerr'):
                    a['to'] = res(a['to'])
                elif k == 'return' and a.get('to') is not None:
                    a['to'] = res(a['to'])
                elif k == 'on':
                    a['to'] = [res(x) for x in a['to']]
                elif k == 'if':
                    a['then'] = res(a['then'])
                    a['else_line'] = res(a['else_line'])
                elif k == 'resume':
                    a['mode'] = res(a.get('mode', 'same'))
                elif k == 'for' and a.get('nx') is not None:
                    a['nx'] = [lineidx[id(a['nx'][0])], a['nx'][1], a['nx'][2]]
                elif k == 'while' and a.get('wend') is not None:
                    a['wend'] = [lineidx[id(a['wend'][0])], a['wend'][1]]
            out.append([number[id(ln)], ln.atoms])
        return {'lines': out, 'features': sorted(self.features), 'excluded': self.excluded}


def compile_tree(case, cls=Compiler):
    return cls(case).compile()


# --------------------------------------------------------------------------------------------
# running the rendered program in the real interpreter

TRACE_OPEN = '1 OPEN "O",1,"T"'


class RealResult(object):
    def __init__(self):
        self.kind = 'ok'         # ok | budget | escaped | exit | store-error
        self.outs = []           # harness Outcomes: RUN, then one per direct line
        self.trace = []
        self.errors = []         # (code, line|None) in order of appearance over all outcomes
        self.detail = ''
        self.key = ''

    def __repr__(self):
        return 'RealResult(%s trace=%r errors=%r %s)' % (
            self.kind, [str(x) for x in self.trace], self.errors, self.detail)


_SHARED = {}


def shared_sandbox():
    """One scratch tree per process (creating a directory per case dominates the cost on a busy
    machine); emptied before every use, removed at exit."""
    import os
    import atexit
    import shutil
    from vlib import harness
    sb = _SHARED.get(os.getpid())
    if sb is None:
        sb = harness.Sandbox()
        _SHARED.clear()
        _SHARED[os.getpid()] = sb
        atexit.register(sb.close)
    for name in os.listdir(sb.z):
        path = os.path.join(sb.z, name)
        if os.path.isdir(path):
            shutil.rmtree(path, ignore_errors=True)
        else:
            os.remove(path)
    return sb


def run_real(prog, directs=(), budget=40000, text=None, session_kwargs=None, add_open=True):
    """Store the rendered program in a fresh session, RUN it, execute the direct lines (lists of
    atoms, or str), close the trace file and read it back."""
    import os
    from vlib import harness
    rr = RealResult()
    lines = ([TRACE_OPEN] if add_open else []) + (text if text is not None else program_text(prog))
    with harness.Sess(sandbox=shared_sandbox(), budget=budget, **(session_kwargs or {})) as s:
        for ln in lines:
            o = s.execute(ln)
            if o.kind != 'ok' or o.errors or o.output.strip():
                rr.kind = 'store-error'
                rr.detail = '%r -> %r' % (ln, o)
                return rr
        o = s.execute('RUN')
        rr.outs.append(o)
        seq = [o]
        if o.kind == 'ok':
            for d in directs:
                if d:
                    # the program may have ENDed (files closed) or stopped (file still open)
                    s.execute('CLOSE')
                    s.execute('OPEN "A",1,"T"')
                o = s.execute(d if isinstance(d, str) else line_text(None, d))
                rr.outs.append(o)
                seq.append(o)
                if o.kind != 'ok':
                    break
        for o in seq:
            rr.errors.extend(o.errors)
        last = seq[-1]
        if last.kind != 'ok':
            rr.kind = last.kind
            rr.key = last.key()
            rr.detail = (last.tb or '')[-1500:]
        oc = s.execute('CLOSE')
        path = os.path.join(s.sandbox.z, 'T')
        try:
            with open(path, 'rb') as f:
                rr.trace = parse_trace(f.read())
        except EnvironmentError as e:
            rr.detail += ' trace file: %s' % e
    return rr
