"""
Session-level program observation helpers shared by C13, C14, C15, C17: program memory as seen
through PEEK (link walk from the program-start pointer at &H30), LIST to a file on Z:.
"""
import os


def peek(s, addr):
    o = s.evaluate(b'PEEK(%d)' % (addr,))
    if o.kind != 'ok' or o.errors or o.value is None:
        raise PeekFailed(repr(o))
    return int(o.value)


class PeekFailed(Exception):
    pass


def peek_walk(s, max_lines=70000, bodies=True):
    """
    Walk the stored program through PEEK. Returns (lines, problems):
    lines = [(address, link, line number, body bytes or None)], problems = [str] for broken
    structure (link not pointing behind a NUL, non-terminated walk).
    """
    start = peek(s, 0x30) + 256 * peek(s, 0x31)
    lines, problems = [], []
    addr = start
    while True:
        link = peek(s, addr) + 256 * peek(s, addr + 1)
        if link == 0:
            break
        if len(lines) >= max_lines:
            problems.append('walk does not terminate')
            break
        num = peek(s, addr + 2) + 256 * peek(s, addr + 3)
        if link <= addr + 4 or link - addr > 400:
            problems.append('line %d at %d has link %d' % (num, addr, link))
            lines.append((addr, link, num, None))
            break
        body = None
        if bodies:
            body = bytes(bytearray(peek(s, a) for a in range(addr + 4, link - 1)))
        if peek(s, link - 1) != 0:
            problems.append('line %d at %d: byte before link target %d is not NUL' % (
                num, addr, link))
        lines.append((addr, link, num, body))
        addr = link
    return lines, problems


def list_to_file(s, name=b'LISTING.TXT', line_range=b''):
    """LIST [range],"file" -> (file bytes or None, Outcome)."""
    o = s.execute(b'LIST ' + line_range + b',"' + name + b'"')
    if o.kind != 'ok' or o.errors:
        return None, o
    path = os.path.join(s.sandbox.z, name.decode())
    try:
        with open(path, 'rb') as f:
            data = f.read()
    except OSError:
        return None, o
    os.remove(path)
    return data, o


def listing_lines(data):
    """Text written by LIST/SAVE,A -> list of line byte strings (None if malformed)."""
    if data is None:
        return None
    if data.endswith(b'\x1a'):
        data = data[:-1]
    if data == b'':
        return []
    if not data.endswith(b'\r\n'):
        return None
    return data[:-2].split(b'\r\n')


def bsave_block(s, addr, length, name=b'MEMBLK.BIN'):
    """
    Bytes [addr, addr+length) of the data segment, read with BSAVE (which reads the same
    byte-wise memory interface as PEEK, in one statement). -> bytes or raises PeekFailed.
    """
    length = max(1, min(length, 65535 - addr))
    o = s.execute(b'DEF SEG:BSAVE "%s",%d,%d' % (name, addr, length))
    if o.kind != 'ok' or o.errors:
        raise PeekFailed('BSAVE: %r' % o)
    path = os.path.join(s.sandbox.z, name.decode())
    with open(path, 'rb') as f:
        data = f.read()
    os.remove(path)
    if len(data) < 7 + length or data[0] != 0xfd:
        raise PeekFailed('BSAVE file malformed: %r' % data[:16])
    return data[7:7 + length]


def program_start(s):
    return peek(s, 0x30) + 256 * peek(s, 0x31)


def walk_block(block, base):
    """
    Follow the line links inside `block` (memory image starting at address `base`, which is the
    address of the first line's link field). -> (records [(addr, link, num, body)], problems).
    """
    recs, problems = [], []
    addr = base
    while True:
        off = addr - base
        if off < 0 or off + 2 > len(block):
            problems.append('record address %d outside the expected program area' % addr)
            break
        link = block[off] | (block[off + 1] << 8)
        if link == 0:
            break
        if off + 4 > len(block):
            problems.append('record at %d truncated' % addr)
            break
        num = block[off + 2] | (block[off + 3] << 8)
        if link < addr + 5:
            problems.append('line %d at %d: link %d does not point forward' % (num, addr, link))
            break
        if link - base > len(block):
            problems.append('line %d at %d: link %d beyond the expected program area' % (
                num, addr, link))
            break
        body = bytes(block[off + 4:link - base - 1])
        if block[link - base - 1] != 0:
            problems.append('line %d at %d: byte before link target %d is %d, not NUL' % (
                num, addr, link, block[link - base - 1]))
        recs.append((addr, link, num, body))
        addr = link
        if len(recs) > 70000:
            problems.append('walk does not terminate')
            break
    return recs, problems


# ---------------------------------------------------------------------------------------------
# reference model of RENUM (from the manual's RENUM entry), shared by C13 and C14

def renum_plan(line_numbers, new, old, inc):
    """
    -> (mapping old->new, None) if RENUM new,old,inc is accepted for a program with these line
    numbers, or (None, error code) if it must be rejected with the program unchanged.
    """
    new = 10 if new is None else new
    old_v = 0 if old is None else old
    inc = 10 if inc is None else inc
    if inc == 0:
        return None, 5
    below = [n for n in line_numbers if n < old_v]
    if below and new <= max(below):
        return None, 5
    mapping = {}
    cur = new
    for n in sorted(x for x in line_numbers if x >= old_v):
        if cur > 65529:
            return None, 5
        mapping[n] = cur
        cur += inc
    return mapping, None


def renum_args(new, old, inc):
    """Argument text of a RENUM statement for optional new, old, increment."""
    args = b''
    if new is not None:
        args += b' %d' % new
    if old is not None or inc is not None:
        args += b' ,' if new is None else b','
        if old is not None:
            args += b'%d' % old
        if inc is not None:
            args += b',%d' % inc
    return args


def renum_atoms(atoms, mapping, missing=None):
    """
    Apply a RENUM mapping to every jump atom (except the 0 of ON ERROR GOTO 0).
    If `missing` is a list, (number) of every reference that names no line of `existing`
    (missing[0] must be the set of existing old numbers) is appended to it.
    """
    out = []
    words = []
    for a in atoms:
        if a[0] == 'j':
            n = a[1]
            if n == 0 and words[-2:] == ['ERROR', 'GOTO']:
                out.append(a)
            else:
                out.append(['j', mapping.get(n, n)])
                if missing is not None and n not in missing[0]:
                    missing.append(n)
            continue
        if a[0] == 'k':
            words.append(a[1])
        elif a[0] != 'sp':
            words.append(None)
        out.append(a)
    return out


# ---------------------------------------------------------------------------------------------
# hand-written text program files (C13 MERGE op, C15 textfile unit)

def text_file_bytes(texts, fmt=None):
    """
    Bytes of a plain-text program file holding the line texts `texts` with legal layout
    variations.  fmt = {'per': [{'e': empty lines before, 'b': length of a blanks-only line before
    (0 = none), 'l': leading blanks before the line number, 'cr': bare CR instead of CR LF}, ...]
    (indexed modulo), 'tail': empty lines behind the last line, 'brk': last line has a line break,
    'eof': file ends with 1A}.  Lines of 255 characters always keep their line break.
    """
    fmt = fmt or {}
    per = fmt.get('per') or [{}]
    out = bytearray()
    n = len(texts)
    for i, t in enumerate(texts):
        p = per[i % len(per)]
        out += b'\r\n' * p.get('e', 0)
        if p.get('b', 0):
            out += b' ' * p['b'] + b'\r\n'
        lead = p.get('l', 0)
        if len(t) + lead > 255:
            lead = max(0, 255 - len(t))
        line = b' ' * lead + t
        out += line
        last = (i == n - 1)
        brk = b'\r' if p.get('cr') else b'\r\n'
        if not last or fmt.get('brk', True) or fmt.get('tail', 0) or len(line) >= 255:
            out += brk
    out += b'\r\n' * fmt.get('tail', 0)
    if fmt.get('eof', True):
        out += b'\x1a'
    return bytes(out)


def st_text_fmt():
    """Hypothesis strategy for the fmt argument of text_file_bytes."""
    from hypothesis import strategies as st
    per = st.fixed_dictionaries({
        'e': st.sampled_from([0, 0, 0, 1, 2]),
        'b': st.sampled_from([0, 0, 0, 1, 3, 40]),
        'l': st.sampled_from([0, 0, 0, 1, 2, 5]),
        'cr': st.sampled_from([False, False, False, True]),
    })
    varied = st.fixed_dictionaries({
            'per': st.lists(per, min_size=1, max_size=4),
            'tail': st.sampled_from([0, 0, 1, 3]),
            'brk': st.booleans(),
            'eof': st.booleans(),
        })
    return st.integers(0, 3).flatmap(lambda k: st.just({}) if k == 0 else varied)
