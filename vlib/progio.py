"""
Session-level program observation helpers shared by C13, C14, C15, C17: program memory as seen
through PEEK (link walk from the program-start pointer at &H30), LIST to a file on Z:.
"""
import os


def peek(s, addr):
    o = s.evaluate(b'PEEK(%d)' % (addr,))
    if o.kind != 'ok' or o.errors or o.value is None:
        raise PeekFailed(repr(o))
    return int(o.value)


class PeekFailed(Exception):
    pass


def peek_walk(s, max_lines=70000, bodies=True):
    """
    Walk the stored program through PEEK. Returns (lines, problems):
    lines = [(address, link, line number, body bytes or None)], problems = [str] for broken
    structure (link not pointing behind a NUL, non-terminated walk).
    """
    start = peek(s, 0x30) + 256 * peek(s, 0x31)
    lines, problems = [], []
    addr = start
    while True:
        link = peek(s, addr) + 256 * peek(s, addr + 1)
        if link == 0:
            break
        if len(lines) >= max_lines:
            problems.append('walk does not terminate')
            break
        num = peek(s, addr + 2) + 256 * peek(s, addr + 3)
        if link <= addr + 4 or link - addr > 400:
            problems.append('line %d at %d has link %d' % (num, addr, link))
            lines.append((addr, link, num, None))
            break
        body = None
        if bodies:
            body = bytes(bytearray(peek(s, a) for a in range(addr + 4, link - 1)))
        if peek(s, link - 1) != 0:
            problems.append('line %d at %d: byte before link target %d is not NUL' % (
                num, addr, link))
        lines.append((addr, link, num, body))
        addr = link
    return lines, problems


def list_to_file(s, name=b'LISTING.TXT', line_range=b''):
    """LIST [range],"file" -> (file bytes or None, Outcome)."""
    o = s.execute(b'LIST ' + line_range + b',"' + name + b'"')
    if o.kind != 'ok' or o.errors:
        return None, o
    path = os.path.join(s.sandbox.z, name.decode())
    try:
        with open(path, 'rb') as f:
            data = f.read()
    except OSError:
        return None, o
    os.remove(path)
    return data, o


def listing_lines(data):
    """Text written by LIST/SAVE,A -> list of line byte strings (None if malformed)."""
    if data is None:
        return None
    if data.endswith(b'\x1a'):
        data = data[:-1]
    if data == b'':
        return []
    if not data.endswith(b'\r\n'):
        return None
    return data[:-2].split(b'\r\n')
