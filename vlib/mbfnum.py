"""
Shared by the number checks C03-C06 (conversions, error bound, identities, comparisons).

* access to the fast values API of a sandboxed session (operands built with values.from_bytes),
  and to shared evaluate/program sessions for the whole-stack routes;
* exact *dyadic* integer arithmetic on MBF byte strings (value == m * 2**k), written from the
  format definition in vlib/mbf.py, used by the bulk loops.  Every check_case uses Fractions via
  vlib.mbf instead, so the two reference implementations cross-check each other: a bulk failure
  that check_case does not confirm is reported by the runner as a harness error, and every
  bulk loop re-judges a sample of its cases through check_case and compares verdicts;
* operand pools: single/double/integer bit patterns by class (random, exponent sweeps with
  stratified mantissas around the binary point, int16 boundaries, halves, extremes, dirty
  zeros) and operand-pair classes (aligned/adjacent exponents, cancellation, range edges).

Nothing here calls into pcbasic to compute an expected value.
"""
from fractions import Fraction

from vlib import harness, mbf

P = {4: 24, 8: 56}
TNAME = {2: 'int', 4: 'single', 8: 'double'}


# ---------------------------------------------------------------------------------------------
# access to the code under test

class _Api(object):
    pass


_API = []


def api():
    """Values API of one sandboxed session per process, float errors in raise mode."""
    if not _API:
        from pcbasic.basic.values import values as V
        from pcbasic.basic.values import numbers as N
        from pcbasic.basic.base import error
        a = _Api()
        a.sess = harness.Sess()
        a.vals = a.sess.impl.values
        a.vals.error_handler.suspend(True)
        a.V = V
        a.N = N
        a.BASICError = error.BASICError
        a.mk = a.vals.from_bytes
        a.cls = {2: N.Integer, 4: N.Single, 8: N.Double}
        a.binop = {'+': V.add, '-': V.sub, '*': V.mul, '/': V.div}
        a.rel = {'=': V.eq, '<>': V.neq, '<': V.lt, '>': V.gt, '<=': V.lte, '>=': V.gte}
        _API.append(a)
    return _API[0]


def frame_key(e):
    return 'escaped.%s@%s' % (type(e).__name__, harness.innermost_frame(e.__traceback__))


def call2(fn, a, b):
    """fn(value(a), value(b)) -> ('ok', bytes) | ('err', code) | ('escaped', key)."""
    A = api()
    try:
        r = fn(A.mk(a), A.mk(b))
    except A.BASICError as e:
        return ('err', e.err)
    except Exception as e:       # noqa: B902
        return ('escaped', frame_key(e))
    return ('ok', bytes(r.to_bytes()))


def call1(fn, a, wrap=True):
    """fn([value(a)]) (function-call convention) or fn(value(a))."""
    A = api()
    try:
        r = fn([A.mk(a)]) if wrap else fn(A.mk(a))
    except A.BASICError as e:
        return ('err', e.err)
    except Exception as e:       # noqa: B902
        return ('escaped', frame_key(e))
    return ('ok', bytes(r.to_bytes()))


_SESS = {}


def sess(kind='eval'):
    """Shared whole-stack session (soft float errors), renewed every 1500 uses."""
    ent = _SESS.get(kind)
    if ent is not None and ent[2] != os.getpid():
        # inherited through fork() (made by the parent while running the regression cases):
        # sibling workers hold the same object and scratch directory; leave it alone
        ent = None
    if ent is None or ent[1] > 1500:
        if ent is not None:
            ent[0].close()
        s = harness.Sess()
        ent = _SESS[kind] = [s, 0, os.getpid()]
    ent[1] += 1
    return ent[0]


def drop_sess(kind):
    ent = _SESS.pop(kind, None)
    if ent is not None:
        ent[0].close()


def lat(b):
    """bytes -> JSON-native latin-1 str."""
    return bytes(b).decode('latin-1')


def unlat(s):
    return s.encode('latin-1')


def hx(b):
    return bytes(b).hex()


# ---------------------------------------------------------------------------------------------
# exact dyadic arithmetic:  (m, k)  <->  m * 2**k

def dy(b):
    """bytes (2: int16, 4: single, 8: double) -> (m, k); every zero encoding -> (0, 0)."""
    n = len(b)
    if n == 2:
        v = b[0] | (b[1] << 8)
        return (v - 0x10000 if v & 0x8000 else v), 0
    e = b[-1]
    if e == 0:
        return 0, 0
    p = P[n]
    man = int.from_bytes(b[:-1], 'little')
    hi = 1 << (p - 1)
    # the sign bit sits where the implied leading one belongs
    if man & hi:
        return -man, e - 128 - p
    return man | hi, e - 128 - p


def dcmp(a, b):
    """sign of a - b for dyadics."""
    m1, k1 = a
    m2, k2 = b
    if k1 > k2:
        m1 <<= (k1 - k2)
    else:
        m2 <<= (k2 - k1)
    return (m1 > m2) - (m1 < m2)


def dadd(a, b):
    m1, k1 = a
    m2, k2 = b
    if k1 > k2:
        return (m1 << (k1 - k2)) + m2, k2
    return m1 + (m2 << (k2 - k1)), k1


def dsub(a, b):
    return dadd(a, (-b[0], b[1]))


def dmul(a, b):
    return a[0] * b[0], a[1] + b[1]


def dabs(a):
    return abs(a[0]), a[1]


def dint(a):
    """dyadic -> (trunc toward zero, has_fraction)."""
    m, k = a
    if k >= 0:
        return m << k, False
    s = -k
    t = abs(m) >> s
    frac = (abs(m) & ((1 << s) - 1)) != 0
    return (-t if m < 0 else t), frac


def dround_half_away(a):
    m, k = a
    if k >= 0:
        return m << k
    s = -k
    t = (abs(m) + (1 << (s - 1))) >> s
    return -t if m < 0 else t


def to_fraction(a):
    m, k = a
    return Fraction(m) * Fraction(2) ** k


MAXD = {n: ((1 << P[n]) - 1, 127 - P[n]) for n in (4, 8)}      # largest magnitude
TWO127 = (1, 127)
MINPOSD = (1, -128)
BAND_HI = (1, -96)      # upper edge of the double-multiplication underflow defect band


def exact(op, da, db):
    """Exact result of a op b as (numerator dyadic, positive denominator dyadic); b != 0 for '/'."""
    if op == '+':
        return dadd(da, db), (1, 0)
    if op == '-':
        return dsub(da, db), (1, 0)
    if op == '*':
        return dmul(da, db), (1, 0)
    if db[0] < 0:
        return (-da[0], da[1]), (-db[0], db[1])
    return da, db


def rcmp_abs(r, c):
    """sign of |r| - c for r = (num, den>0), c dyadic."""
    return dcmp(dabs(r[0]), dmul(c, r[1]))


def err_cmp(ret, r, units):
    """sign of |ret - r| - units*ulp(ret), for ret = (m, k) taken from result bytes (k = log2 ulp)."""
    num, den = r
    diff = dabs(dsub(dmul(ret, den), num))
    return dcmp(diff, dmul((units, ret[1]), den))


def is_representable(r, n):
    """r = (num, den): exactly representable in n-byte precision (ignoring range)?"""
    num, den = r
    m, k = num
    if m == 0:
        return True
    dm = den[0]
    if dm & (dm - 1):            # denominator not a power of two -> reduce exactly
        f = Fraction(m, dm)
        if f.denominator & (f.denominator - 1):
            return False
        m = f.numerator
    m = abs(m)
    m >>= ((m & -m).bit_length() - 1)
    return m.bit_length() <= P[n]


# ---------------------------------------------------------------------------------------------
# single operand pools

def enc(sign, man, e, n):
    """sign, mantissa with leading one at bit p-1, biased exponent -> bytes."""
    p = P[n]
    m = (man & ((1 << (p - 1)) - 1)) | (sign << (p - 1))
    return m.to_bytes(n - 1, 'little') + bytes((e,))


def enc_int_value(v, n):
    """Integer v (representable in p bits) as n-byte float bytes (exact)."""
    if v == 0:
        return bytes(n)
    p = P[n]
    L = abs(v).bit_length()
    if L > p:
        assert abs(v) & ((1 << (L - p)) - 1) == 0, 'not representable'
        return enc(1 if v < 0 else 0, abs(v) >> (L - p), 128 + L, n)
    return enc(1 if v < 0 else 0, abs(v) << (p - L), 128 + L, n)


def rand_bytes(rng, n):
    return rng.getrandbits(8 * n).to_bytes(n, 'little')


def rand_man(rng, p):
    """A p-bit significand (leading one set) from a mix of shapes."""
    c = rng.randrange(10)
    top = 1 << (p - 1)
    if c < 4:
        return top | rng.getrandbits(p - 1)
    if c == 4:      # sparse
        m = top
        for _ in range(rng.randrange(0, 4)):
            m |= 1 << rng.randrange(p - 1)
        return m
    if c == 5:      # dense
        m = (1 << p) - 1
        for _ in range(rng.randrange(0, 4)):
            m &= ~(1 << rng.randrange(p - 1))
        return m | top
    if c == 6:      # random high part, special low byte(s)
        low = rng.choice((0, 1, 0x7f, 0x80, 0x81, 0xff, 0x100, 0x1ff, 0x7fff, 0x8000, 0x8001, 0xfe))
        w = rng.choice((8, 9, 16))
        return top | ((rng.getrandbits(p - 1) >> w) << w) | (low & ((1 << w) - 1))
    if c == 7:      # special high part, random low
        k = rng.randrange(1, p - 1)
        hi = rng.choice((0, (1 << (p - 1 - k)) - 1))
        return top | (hi << k) | rng.getrandbits(k)
    if c == 8:      # run of ones / zeros boundary
        k = rng.randrange(1, p)
        return top | ((1 << k) - 1) if rng.random() < 0.5 else top | (((1 << p) - 1) ^ ((1 << k) - 1))
    return rng.choice((top, top | 1, (1 << p) - 1, (1 << p) - 2, top | (top >> 1), top | (top >> 1) - 1))


def sweep_man(rng, e, n):
    """
    Significand for biased exponent e chosen around the binary point: with f fractional bits
    the integer part is boundary-or-random and the fraction is one of 0, 1, half-1, half,
    half+1, all ones, quarter, random.
    """
    p = P[n]
    f = (128 + p) - e                   # number of fractional bits of the p-bit significand
    top = 1 << (p - 1)
    if not 1 <= f <= p - 1:
        return rand_man(rng, p)
    ibits = p - 1 - f                   # free integer bits below the leading one
    c = rng.randrange(8)
    if ibits == 0:
        ip = 0
    elif c == 0:
        ip = 0
    elif c == 1:
        ip = (1 << ibits) - 1
    elif c == 2:
        ip = rng.choice((1, (1 << ibits) - 2)) & ((1 << ibits) - 1)
    else:
        ip = rng.getrandbits(ibits)
    half = 1 << (f - 1)
    c = rng.randrange(12)
    if c == 0:
        fr = 0
    elif c == 1:
        fr = 1
    elif c == 2:
        fr = half - 1
    elif c in (3, 4):
        fr = half
    elif c == 5:
        fr = (half + 1) & ((1 << f) - 1)
    elif c == 6:
        fr = (1 << f) - 1
    elif c == 7:
        fr = half >> 1
    elif c == 8:
        fr = half | (1 << rng.randrange(f))
    else:
        fr = rng.getrandbits(f)
    return top | (ip << f) | fr


S_SWEEP_EXPS = [0, 1] + list(range(0x7f, 0x9a)) + [0xfe, 0xff]
D_SWEEP_EXPS = [0, 1, 0x61] + list(range(0x7f, 0x9a)) + list(range(0xb0, 0xbb)) + [0xfe, 0xff]


def gen_float(rng, n):
    """One n-byte float pattern from the class mix -> (bytes, class label)."""
    p = P[n]
    c = rng.randrange(20)
    if c < 5:
        return rand_bytes(rng, n), 'random'
    if c < 12:
        e = rng.choice(S_SWEEP_EXPS if n == 4 else D_SWEEP_EXPS)
        if e == 0:
            return rand_bytes(rng, n - 1) + b'\0', 'zero-dirty'
        return enc(rng.getrandbits(1), sweep_man(rng, e, n), e, n), 'sweep'
    if c < 15:
        # around the int16 boundaries and other integers: v + d
        v = rng.choice((32767, 32768, 32766, 32769, 16384, 255, 256, 1, 2, 0, 65535, 65536,
                        rng.randrange(0, 32768), rng.randrange(0, 70000)))
        q = rng.choice((0, 1, 2, 3, 4, 8, p - 17, p - 16))        # fraction resolution 2^-q
        q = max(0, min(q, p - max(v, 1).bit_length()))
        num = (v << q) + rng.choice((0, 1, -1, (1 << q) >> 1, ((1 << q) >> 1) + 1,
                                     ((1 << q) >> 1) - 1, rng.randrange(0, (1 << q) + 1)))
        num = abs(num)
        if num == 0:
            return bytes(n), 'zero'
        L = num.bit_length()
        if L > p:
            num >>= (L - p)
            q -= (L - p)
            L = p
        return enc(rng.getrandbits(1), num << (p - L), 128 + L - q, n), 'int-boundary'
    if c < 17:
        e = rng.choice((1, 2, 3, 0xfd, 0xfe, 0xff))
        return enc(rng.getrandbits(1), rand_man(rng, p), e, n), 'extreme'
    if c == 17:
        return rand_bytes(rng, n - 1) + b'\0', 'zero-dirty'
    if c == 18 and n == 8:
        # doubles at/near the single rounding midpoints: low 32 bits around 0x80000000
        hi = enc(rng.getrandbits(1), rand_man(rng, 24), rng.choice((1, 0x80, 0x81, 0x90, 0x98, 0xfe, 0xff,
                                                                   rng.randrange(1, 256))), 4)
        lo = rng.choice((0x80000000, 0x7fffffff, 0x80000001, 0x80ffffff, 0x7f000000, 0x7fffff00,
                         0x81000000, 0, 1, 0xffffffff, 0x00ffffff, 0x01000000,
                         0x80000000 ^ (1 << rng.randrange(32)), rng.getrandbits(32)))
        if rng.random() < 0.3:
            hi = bytes((0xff, 0xff, 0x7f | (hi[2] & 0x80), hi[3]))
        return lo.to_bytes(4, 'little') + hi, 'single-midpoint'
    return enc(rng.getrandbits(1), rand_man(rng, p), rng.randrange(1, 256), n), 'shaped'


def gen_int(rng):
    c = rng.randrange(6)
    if c == 0:
        v = rng.choice((0, 1, -1, 2, -2, 32767, -32768, -32767, 32766, 255, 256, -256, 16384, -16384))
    elif c == 1:
        v = rng.randrange(-300, 301)
    else:
        v = rng.randrange(-32768, 32768)
    return (v & 0xffff).to_bytes(2, 'little'), 'int'


def gen_value(rng, n):
    return gen_int(rng) if n == 2 else gen_float(rng, n)


# ---------------------------------------------------------------------------------------------
# operand pair classes

def with_exp(b, e):
    return b[:-1] + bytes((e & 0xff,))


def flip_low(rng, b, k):
    m = int.from_bytes(b[:-1], 'little')
    for _ in range(k):
        m ^= 1 << rng.randrange(0, 10)
    return m.to_bytes(len(b) - 1, 'little') + b[-1:]


def neg_bytes(b):
    return b[:-2] + bytes((b[-2] ^ 0x80,)) + b[-1:]


def gen_pair(rng, n, op=None):
    """(a, b, class) of two n-byte floats; op steers the range-edge classes."""
    p = P[n]
    c = rng.randrange(20)
    if c < 3:
        return rand_bytes(rng, n), rand_bytes(rng, n), 'random'
    if c < 9:
        a = enc(rng.getrandbits(1), rand_man(rng, p), rng.randrange(1, 256), n)
        ds = [0, 1, 2, 3, 7, 8, 9, 23, 24, 25] + ([31, 32, 33, 55, 56, 57] if n == 8 else [])
        d = rng.choice(ds) * rng.choice((1, -1))
        e = min(255, max(1, a[-1] + d))
        b = enc(rng.getrandbits(1), rand_man(rng, p), e, n)
        return a, b, 'exp-near'
    if c < 11:
        a = enc(rng.getrandbits(1), rand_man(rng, p), rng.choice((1, 2, 3, 0x80, 0x81, 0xfe, 0xff,
                                                                  rng.randrange(1, 256))), n)
        # a + b (or a - b) cancels almost completely
        b = flip_low(rng, a if op == '-' else neg_bytes(a), rng.randrange(0, 4))
        if rng.random() < 0.3:
            b = with_exp(b, min(255, max(1, b[-1] + rng.choice((1, -1)))))
        return a, b, 'cancel'
    if c < 13:
        ea = rng.choice((1, 2, 3, 253, 254, 255))
        eb = rng.choice((1, 2, 3, 253, 254, 255, 0x80, 0x81, 0x82))
        a = enc(rng.getrandbits(1), rand_man(rng, p), ea, n)
        b = enc(rng.getrandbits(1), rand_man(rng, p), eb, n)
        return (a, b, 'extreme') if rng.random() < 0.5 else (b, a, 'extreme')
    if c < 18:
        # result lands within +-2 binades of a range edge (for * and /; for +,- at the top edge)
        ea = rng.randrange(1, 256)
        edge = rng.choice((255, 255, 1, 1, 33)) if n == 8 else rng.choice((255, 1))
        off = rng.choice((-3, -2, -1, 0, 1, 2, 3))
        if op == '/':
            eb = ea - (edge + off) + 129          # e(a/b) ~ ea - eb + 128 (+1)
        elif op == '*':
            eb = (edge + off) + 128 - ea          # e(a*b) ~ ea + eb - 128 (-1)
        else:
            ea = 255 if rng.random() < 0.7 else 254
            eb = ea - rng.choice((0, 0, 1, 2, 23, 24, 25))
        if not 1 <= eb <= 255:
            eb = min(255, max(1, eb))
        sa = rng.getrandbits(1)
        sb = rng.getrandbits(1) if op in ('*', '/') else (sa if rng.random() < 0.8 else 1 - sa)
        if op == '-':
            sb = 1 - sb
        a = enc(sa, rand_man(rng, p), ea, n)
        b = enc(sb, rand_man(rng, p), eb, n)
        return a, b, 'edge'
    if c == 18:
        a = rand_bytes(rng, n - 1) + b'\0'
        b = rand_bytes(rng, n) if rng.random() < 0.7 else rand_bytes(rng, n - 1) + b'\0'
        return (a, b, 'zero-dirty') if rng.random() < 0.5 else (b, a, 'zero-dirty')
    a, _ = gen_float(rng, n)
    b, _ = gen_float(rng, n)
    return a, b, 'pool'


def promote_bytes(b, n):
    """Reference promotion of value bytes to a wider n-byte float (exact)."""
    if len(b) == n:
        return b
    if len(b) == 2:
        return enc_int_value(dy(b)[0], n)
    assert len(b) == 4 and n == 8
    if b[-1] == 0:
        return bytes(8)
    return b'\0\0\0\0' + b


# ---------------------------------------------------------------------------------------------
# whole-stack routes: Session.evaluate (direct mode, soft float errors) and a stored program
# line under ON ERROR GOTO (float errors trap)

CV = {2: b'CVI', 4: b'CVS', 8: b'CVD'}
MK = {2: b'MKI$', 4: b'MKS$', 8: b'MKD$'}
_PROG = {}


def run_expr(expr, variables, route, restype='str'):
    """
    Evaluate BASIC expression text `expr` (bytes) with string variables set from `variables`
    ({'A$': bytes, ...}).  restype 'str' (expression is string-valued, e.g. MKS$(...)) or 'int'.
    -> ('ok', value) | ('soft', code, value) | ('err', code) | ('err-untrapped', code)
       | ('escaped', key) | ('budget',)
    """
    if route == 'eval':
        s = sess('eval')
        for k, v in variables.items():
            s.set(k, v)
        o = s.evaluate(expr)
        if o.kind != 'ok':
            return ('budget',) if o.kind == 'budget' else ('escaped', 'escaped.' + o.key())
        if o.errors:
            s.execute(b'CLS')
            if o.value is not None:
                return ('soft', o.errors[0][0], o.value)
            return ('err', o.errors[0][0])
        return ('ok', o.value)
    if route == 'prog':
        s = sess('prog')
        target = b'C$' if restype == 'str' else b'R%'
        text = (b'10 ON ERROR GOTO 90\n20 ' + target + b'=' + expr + b':E%=0:END\n'
                b'90 E%=ERR:RESUME 99\n99 END\n')
        if _PROG.get('sess') is not s or _PROG.get('text') != text:
            o = s.execute(text)
            _PROG['sess'], _PROG['text'] = s, text
            if o.kind != 'ok' or o.errors:
                _PROG.clear()
                return ('budget',) if o.kind == 'budget' else ('escaped', 'escaped.load:' + o.key())
        for k, v in variables.items():
            s.set(k, v)
        o = s.execute(b'GOTO 10')
        if o.kind != 'ok':
            _PROG.clear()
            return ('budget',) if o.kind == 'budget' else ('escaped', 'escaped.' + o.key())
        if o.errors:
            s.execute(b'CLS')
            return ('err-untrapped', o.errors[0][0])
        e = s.get('E%')
        if e:
            return ('err', e)
        return ('ok', s.get(target))
    raise ValueError(route)


def binop_observe(op, a, b, route):
    """a op b for operand bytes of any numeric size; float result delivered as bytes."""
    if route == 'api':
        return call2(api().binop[op], a, b)
    if route == 'api-soft':
        # values API with the console attached and float errors handled softly
        A = api()
        A.sess.execute(b'CLS')
        A.vals.error_handler.suspend(False)
        try:
            o = call2(A.binop[op], a, b)
        finally:
            A.vals.error_handler.suspend(True)
        if o[0] != 'ok':
            return o
        text = b'\n'.join(A.sess.chars())
        code = 6 if b'Overflow' in text else (11 if b'Division by zero' in text else None)
        return ('soft', code, o[1]) if code else o
    rn = max(len(a), len(b), 4)
    expr = MK[rn] + b'(' + CV[len(a)] + b'(A$)' + op.encode() + CV[len(b)] + b'(B$))'
    o = run_expr(expr, {'A$': a, 'B$': b}, route)
    if o[0] in ('ok', 'soft'):
        return o[:-1] + (bytes(o[-1]),)
    return o


# ---------------------------------------------------------------------------------------------
# related operand pairs of possibly different types (C05, C06)

def neighbour(b, d):
    """Representable pattern d places away (significand +-d with exponent carry), clamped to range."""
    n = len(b)
    if n == 2:
        v = dy(b)[0] + d
        return (max(-32768, min(32767, v)) & 0xffff).to_bytes(2, 'little')
    pr = mbf.parts(b)
    if pr is None:
        return b
    sign, man, e = pr
    p = P[n]
    man += d
    if man >> p:
        man >>= 1
        e += 1
    elif not man >> (p - 1):
        man = (man << 1) | 1
        e -= 1
    if not 1 <= e <= 255:
        return b
    return enc(sign, man, e, n)


def carry_to(x, ny, rng):
    """x's value in an ny-byte type: exact when it fits, otherwise the closest simple substitute."""
    nx = len(x)
    d = dy(x)
    if ny == 2:
        t = dround_half_away(d)
        return (max(-32768, min(32767, t)) & 0xffff).to_bytes(2, 'little')
    if d[0] == 0:
        return bytes(ny) if rng.random() < 0.5 else rand_bytes(rng, ny - 1) + b'\0'
    try:
        return mbf.encode_value(to_fraction(d), ny)
    except ValueError:
        return x[4:]          # double -> single: chop the low mantissa bytes


def gen_related(rng):
    """(x, y, class) over all 9 type pairings, y tied to x in one of several ways."""
    nx = rng.choice((2, 4, 8))
    ny = rng.choice((2, 4, 8))
    x, _ = gen_value(rng, nx)
    c = rng.randrange(12)
    if c < 3:
        return x, gen_value(rng, ny)[0], 'independent'
    if c < 5 and nx == ny and nx > 2:
        a, b, _ = gen_pair(rng, nx, rng.choice('+-*/'))
        return a, b, 'pair-class'
    if c < 7:
        return x, carry_to(x, ny, rng), 'equal-value'
    if c < 10:
        y = carry_to(x, ny, rng)
        return x, neighbour(y, rng.choice((1, -1, 2, -2, 3, -3))), 'adjacent'
    if c == 10:
        y = carry_to(x, ny, rng)
        if ny > 2:
            y = neg_bytes(y)
        else:
            y = (max(-32768, min(32767, -dy(y)[0])) & 0xffff).to_bytes(2, 'little')
        return x, y, 'negated'
    # zero encodings against each other and against tiny values
    def zero_or_tiny(n):
        if n == 2:
            return rng.choice((b'\0\0', b'\x01\x00', b'\xff\xff'))
        k = rng.randrange(4)
        if k == 0:
            return bytes(n)
        if k < 3:
            return rand_bytes(rng, n - 1) + b'\0'
        return enc(rng.getrandbits(1), rand_man(rng, P[n]), rng.choice((1, 2)), n)
    return zero_or_tiny(nx), zero_or_tiny(ny), 'zeros'


# ---------------------------------------------------------------------------------------------
# progress watchdog for bulk loops (a stalled operation is inconclusive, never a violation)

import os
import signal as _signal


class Hang(BaseException):
    """Raised by the watchdog inside a bulk loop that made no progress for `seconds`."""


def _on_alarm(signum, frame):
    raise Hang()


def arm(seconds=30.0):
    _signal.signal(_signal.SIGALRM, _on_alarm)
    _signal.setitimer(_signal.ITIMER_REAL, seconds)


def disarm():
    _signal.setitimer(_signal.ITIMER_REAL, 0)
