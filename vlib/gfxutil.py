"""
Shared helpers for the graphics properties C30-C33.

* MODES: every graphics mode of every adapter, written from the manual's SCREEN table
  (resolution, number of attributes) - not read from pcbasic/basic/display/modes.py.
* GfxSess: a harness.Sess in a given (adapter, SCREEN mode, active page, visual page) with the
  *silent statement runner* of DESIGN C30: every graphics statement is a stored program line
  executed under ON ERROR GOTO with a handler that only records ERR, entered with a direct-mode
  GOTO through Session.execute (no prompt, no error text => the console never draws on the page).
* page snapshots (state reads of display.pages[i].pixels), images as lists of bytearray rows,
  diff helpers.
"""
import random
import logging

from vlib import harness


class _FontWarningFilter(logging.Filter):
    """The sandbox has no 14/16-pixel fonts; pcbasic warns on every mode switch."""

    def filter(self, record):
        try:
            return 'font available' not in record.getMessage()
        except Exception:
            return True


logging.getLogger().addFilter(_FontWarningFilter())


# --------------------------------------------------------------------------------------------
# mode tables (manual: SCREEN statement, "Video modes")

class Mode(object):
    """One (adapter, SCREEN number) configuration."""

    def __init__(self, adapter, screen, width, height, nattr, kwargs, wfactor=1):
        self.adapter = adapter      # label
        self.screen = screen        # SCREEN number
        self.width = width
        self.height = height
        self.nattr = nattr          # number of attributes
        self.kwargs = kwargs        # Session keyword arguments selecting the adapter
        self.wfactor = wfactor      # GET stores wfactor x the requested width (Tandy SCREEN 6)
        self.name = '%s/%d' % (adapter, screen)

    def __repr__(self):
        return 'Mode(%s %dx%dx%d)' % (self.name, self.width, self.height, self.nattr)


def _modes():
    out = []

    def add(adapter, kwargs, lst):
        for screen, w, h, n in lst:
            wf = 2 if (adapter in ('pcjr', 'tandy') and screen == 6) else 1
            out.append(Mode(adapter, screen, w, h, n, dict(kwargs), wf))
    cga12 = [(1, 320, 200, 4), (2, 640, 200, 2)]
    ega = cga12 + [(7, 320, 200, 16), (8, 640, 200, 16), (9, 640, 350, 16)]
    pcjr = cga12 + [(3, 160, 200, 16), (4, 320, 200, 4), (5, 320, 200, 16), (6, 640, 200, 4)]
    add('cga', {'video': 'cga'}, cga12)
    add('ega', {'video': 'ega'}, ega)
    add('vga', {'video': 'vga'}, ega)
    add('ega_mono', {'video': 'ega', 'monitor': 'mono'}, [(10, 640, 350, 4)])
    add('hercules', {'video': 'hercules'}, [(3, 720, 348, 2)])
    add('olivetti', {'video': 'olivetti'}, cga12 + [(3, 640, 400, 2)])
    add('pcjr', {'video': 'pcjr'}, pcjr)
    add('tandy', {'video': 'tandy'}, pcjr)
    return out


MODES = _modes()
MODE_BY_NAME = {m.name: m for m in MODES}

# SCREEN 0 of every adapter, both widths
TEXT_CONFIGS = [
    (name, dict(kw, text_width=w))
    for name, kw in [
        ('cga', {'video': 'cga'}), ('ega', {'video': 'ega'}), ('vga', {'video': 'vga'}),
        ('mda', {'video': 'mda'}), ('ega_mono', {'video': 'ega', 'monitor': 'mono'}),
        ('hercules', {'video': 'hercules'}), ('olivetti', {'video': 'olivetti'}),
        ('pcjr', {'video': 'pcjr'}), ('tandy', {'video': 'tandy'}),
    ]
    for w in (40, 80)
]

# low- and high-resolution modes (the property modules sample low:high = 3:1 per case)
LOWRES = [m.name for m in MODES if m.width * m.height <= 64000]
HIRES = [m.name for m in MODES if m.width * m.height > 64000]


# --------------------------------------------------------------------------------------------
# images
#
# A snapshot is a list of `bytes` rows; a model image is a list of `bytearray` rows (bytes and
# bytearray compare equal by content, so `snapshot == model` works). Whole-page byte strings are
# avoided on purpose: allocating hundreds of kilobytes per snapshot is what dominates the cost.

def page_rows(page):
    """State read of one VideoBuffer's pixel matrix -> list of bytes rows."""
    rows = getattr(getattr(page, '_pixels', None), '_rows', None)
    if rows is not None:
        # straight from the row buffers: also works when a defect has left rows of unequal length
        return [bytes(r) for r in rows]
    m = page.pixels[:, :]
    data, w = m.to_bytes(), m.width
    return [data[o:o + w] for o in range(0, len(data), w)]


def page_equals(page, snapshot):
    """True if a VideoBuffer's pixel matrix equals a snapshot (no copy when possible)."""
    rows = getattr(getattr(page, '_pixels', None), '_rows', None)
    if rows is not None and len(rows) == len(snapshot):
        return rows == snapshot
    return page_rows(page) == snapshot


def rows_of(snapshot):
    """snapshot -> mutable image."""
    return [bytearray(r) for r in snapshot]


def diff_pixels(a, b, limit=None):
    """Coordinates (x, y) where two images differ."""
    out = []
    if a == b:
        return out
    for y, (ra, rb) in enumerate(zip(a, b)):
        if ra != rb:
            if len(ra) != len(rb):
                # a corrupted pixel matrix (row length changed): report the first excess column
                out.append((min(len(ra), len(rb)), y))
                rb = bytes(rb[:len(ra)]).ljust(len(ra), b'\xff')
            for x in range(len(ra)):
                if ra[x] != rb[x]:
                    out.append((x, y))
                    if limit is not None and len(out) >= limit:
                        return out
    return out


def pixels_not(img, u):
    """Coordinates of the pixels of img that differ from the uniform value u."""
    if not img:
        return []
    ref = bytes([u]) * len(img[0])
    return [(x, y) for y, row in enumerate(img) if row != ref
            for x in range(len(row)) if row[x] != u]


def outside_rect_equal(a, b, rect):
    """True if images a and b agree everywhere outside rect=(x0, y0, x1, y1) inclusive."""
    if a == b:
        return True
    x0, y0, x1, y1 = rect
    height, width = len(a), len(a[0])
    x0 = max(0, x0)
    y0 = max(0, y0)
    x1 = min(width - 1, x1)
    y1 = min(height - 1, y1)
    if x1 < x0 or y1 < y0:
        return False
    if a[:y0] != b[:y0] or a[y1 + 1:] != b[y1 + 1:]:
        return False
    for y in range(y0, y1 + 1):
        ra, rb = a[y], b[y]
        if ra != rb and (ra[:x0] != rb[:x0] or ra[x1 + 1:] != rb[x1 + 1:]):
            return False
    return True


def describe_diff(exp, got, n=4):
    d = diff_pixels(exp, got, limit=n)
    return ', '.join('(%d,%d) expected %s got %s' % (
        x, y, exp[y][x] if x < len(exp[y]) else 'nothing',
        got[y][x] if x < len(got[y]) else 'nothing') for x, y in d)


def noise_rows(seed, width, height, nattr, density=256):
    """Deterministic pseudo-random image; density/256 of the pixels carry noise, rest 0."""
    rng = random.Random(seed)
    table = bytes((i % nattr) for i in range(256))
    keep = bytes((255 if i < density else 0) for i in range(256))
    rows = []
    for _ in range(height):
        data = rng.randbytes(width).translate(table)
        if density < 256:
            m = rng.randbytes(width).translate(keep)
            data = (int.from_bytes(data, 'big') & int.from_bytes(m, 'big')).to_bytes(width, 'big')
        rows.append(bytearray(data))
    return rows


# --------------------------------------------------------------------------------------------
# session

HANDLER_LINE = 60000

_SANDBOX = {}


def _shared_sandbox():
    import os
    sb = _SANDBOX.get(os.getpid())
    if sb is None or not os.path.isdir(sb.z):
        _SANDBOX.clear()
        sb = _SANDBOX[os.getpid()] = harness.Sandbox()
    return sb


class GfxSess(object):
    """
    Session in a graphics (or text) mode with a silent statement runner.

    load([stmt, ...]) stores for statement k the lines
        100+10k  ON ERROR GOTO 60000:E=0
        101+10k  <stmt>
        102+10k  END
      60000      E=ERR:RESUME NEXT
    (storing program lines clears variables: set variables and DIM arrays *after* load, through
    further statements or set()). run(k) executes `GOTO 100+10k` and returns the error code.
    """

    def __init__(self, mode=None, apage=0, vpage=0, kwargs=None, budget=200000):
        self.mode = mode
        kw = dict(mode.kwargs) if mode is not None else {}
        if kwargs:
            kw.update(kwargs)
        # graphics cases never touch the file system: all sessions of a worker share one sandbox
        self.sess = harness.Sess(sandbox=_shared_sandbox(), budget=budget, **kw)
        self.impl = self.sess.impl
        self.display = self.impl.display
        self.nstmt = 0
        self.setup_error = None
        if mode is not None:
            o = self.sess.execute(b'SCREEN %d' % mode.screen)
            if o.kind != 'ok' or o.errors:
                self.setup_error = 'SCREEN %d on %s: %r' % (mode.screen, mode.adapter, o)
            else:
                pix = self.display.pages[0].pixels
                if (pix.width, pix.height) != (mode.width, mode.height):
                    self.setup_error = 'mode %s has %dx%d pixels, manual says %dx%d' % (
                        mode.name, pix.width, pix.height, mode.width, mode.height)
            self.npages = len(self.display.pages)
            self.apage = apage % self.npages
            self.vpage = vpage % self.npages
            if self.setup_error is None and (self.apage or self.vpage):
                o = self.sess.execute(b'SCREEN ,,%d,%d' % (self.apage, self.vpage))
                if o.kind != 'ok' or o.errors:
                    self.setup_error = 'SCREEN ,,%d,%d: %r' % (self.apage, self.vpage, o)
        else:
            self.npages = len(self.display.pages)
            self.apage = self.vpage = 0

    # -- program ---------------------------------------------------------------------------

    def load(self, statements):
        lines = []
        for k, stmt in enumerate(statements):
            if isinstance(stmt, str):
                stmt = stmt.encode('latin-1')
            base = 100 + 10 * k
            lines.append(b'%d ON ERROR GOTO %d:E=0' % (base, HANDLER_LINE))
            lines.append(b'%d %s' % (base + 1, stmt))
            lines.append(b'%d END' % (base + 2))
        lines.append(b'%d E=ERR:RESUME NEXT' % HANDLER_LINE)
        self.nstmt = len(statements)
        for ln in lines:
            o = self.sess.execute_line(ln)
            if o.kind != 'ok' or o.errors:
                return o
        return None

    def run(self, k, allow_output=False):
        """Execute stored statement k. -> (error code or None if not a clean run, Outcome)."""
        o = self.sess.execute_line(b'GOTO %d' % (100 + 10 * k))
        if o.kind != 'ok':
            return None, o
        if o.output.strip(b'\r\n ') and not allow_output:
            # something was printed: the run was not silent
            return None, o
        return int(self.sess.get('E!')), o

    def set(self, name, value):
        return self.sess.set(name, value)

    def get(self, name):
        return self.sess.get(name)

    # -- pages -----------------------------------------------------------------------------

    def snap(self, page=None):
        """Snapshot (list of bytes rows) of one page (default: active page as we set it up)."""
        if page is None:
            page = self.apage
        return page_rows(self.display.pages[page])

    def snap_all(self):
        """Snapshots of all pages; pages that are entirely 0 share one row object (no copies)."""
        pix = self.display.pages[0].pixels
        blank = [bytes(pix.width)] * pix.height
        return [blank if page_equals(p, blank) else page_rows(p) for p in self.display.pages]

    def changed_pages(self, snaps, skip=None):
        """Numbers of the pages whose pixels differ from the snapshots taken with snap_all()."""
        return [i for i, (p, s) in enumerate(zip(self.display.pages, snaps))
                if i != skip and not page_equals(p, s)]

    def put_rows(self, rows, page=None, x0=0, y0=0):
        """Write an image (list of bytearray rows) into a page's pixel matrix at (x0, y0)."""
        if page is None:
            page = self.apage
        vb = self.display.pages[page]
        raw = getattr(getattr(vb, '_pixels', None), '_rows', None)
        if raw is not None and isinstance(raw[0], bytearray):
            # state write straight into the row buffers (fast path)
            for dy, row in enumerate(rows):
                raw[y0 + dy][x0:x0 + len(row)] = row
            return
        pix = vb.pixels
        for dy, row in enumerate(rows):
            pix[y0 + dy, x0:x0 + len(row)] = [bytearray(row)]

    def fill(self, attr, page=None):
        pix = self.display.pages[0].pixels
        self.put_rows([bytes([attr]) * pix.width] * pix.height, page)

    def text_state(self):
        """Character and attribute buffers of all pages (text-mode 'nothing changes' check)."""
        out = []
        for p in self.display.pages:
            rows = []
            for r in range(1, self.display.mode.height + 1):
                rows.append(tuple((p.get_byte(r, c), p.get_attr(r, c))
                                  for c in range(1, self.display.mode.width + 1)))
            out.append(tuple(rows))
        return out

    def close(self):
        return self.sess.close()

    def __enter__(self):
        return self

    def __exit__(self, *a):
        self.close()


def scaled(examples):
    """Scale example counts by VERIF_GFX_SCALE (development / mutation runs only; default 1)."""
    import os
    f = float(os.environ.get('VERIF_GFX_SCALE', '1') or 1)
    return {k: max(1, int(v * f)) for k, v in examples.items()}


def escaped_key(o):
    return 'escaped.%s@%s' % (o.exc, o.frame)
