#!/bin/bash
# Offline setup: make sure hypothesis is importable by /venv/bin/python (it normally is already).
HERE="$(cd "$(dirname "$0")" && pwd)"
cd "$HERE"
mkdir -p .deps evidence replays .work
if ! PYTHONPATH="$HERE/.deps" /venv/bin/python -c "import hypothesis" 2>/dev/null; then
  /venv/bin/pip install --quiet --no-index --find-links /opt/veriftools/wheels --target "$HERE/.deps" hypothesis || exit 1
fi
PYTHONPATH="/repo:$HERE/.deps:$HERE" /venv/bin/python -c "import hypothesis, pcbasic, vlib.harness; print('setup ok: hypothesis', hypothesis.__version__)"
