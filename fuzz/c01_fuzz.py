#!/venv/bin/python
"""
Atheris (coverage-guided) target for C01 - thorough tier companion of vlib/props/c01_noescape.py.

    cd /verif && PYTHONPATH=/repo:/verif/.deps:/verif /venv/bin/python fuzz/c01_fuzz.py \
        -max_total_time=600 -max_len=600 .work/c01_corpus

The fuzzer bytes are decoded into a C01 'lines' case (configuration byte, then lines split at 0x0A;
a line starting with 0x01 is evaluated as an expression, 0x02 is a typed-input interactive leg,
0x03 loads the rest as a program file) and judged by the same oracle: any exception other than
error.Exit leaving the session aborts the run with the bucket key and writes the case as a replay
file under replays/C01/ that `./check C01 --replay FILE` re-executes without Atheris.
Buckets already present in REGRESSIONS (known findings) are skipped so that the search continues.
"""
import os
import sys
import json

HERE = os.path.dirname(os.path.dirname(os.path.abspath(__file__)))
for p in (os.environ.get('VERIF_REPO', '/repo'), os.path.join(HERE, '.deps'), HERE):
    if p not in sys.path:
        sys.path.insert(0, p)

import atheris                                           # noqa: E402

with atheris.instrument_imports(include=['pcbasic']):
    import pcbasic.basic                                 # noqa: E402,F401

from vlib.props import c01_noescape as c01               # noqa: E402

KNOWN = set()


def decode(data):
    if not data:
        return None
    cfg, dev = c01.build_cfg([data[0] % 4, (data[0] >> 2) % 12, 0, 0, 0, 0, 0, 0, 0, 0, 0, 0, 0, 0])
    body = data[1:]
    if body[:1] == b'\x03':
        return {'u': 'file', 'cfg': cfg, 'name': 'P.BAS', 'data': body[1:].decode('latin-1'),
                'how': ['LOAD "P.BAS"', 'LIST', 'RUN']}
    steps = []
    for line in body.split(b'\n')[:12]:
        text = line[:255].decode('latin-1')
        if text[:1] == '\x01':
            steps.append({'m': 'e', 't': text[1:]})
        elif text[:1] == '\x02':
            steps.append({'m': 'i', 't': '', 'k': text[1:].replace('\x04', '\r') + '\rSYSTEM\r'})
        else:
            steps.append({'m': 'x', 't': text})
    return {'u': 'lines', 'cfg': cfg, 'steps': steps}


def one_input(data):
    case = decode(data)
    if case is None:
        return
    res = c01.check_case(case)
    new = [(k, m) for k, m in res.fails if k not in KNOWN]
    if new:
        key, msg = new[0]
        d = os.path.join(HERE, 'replays', 'C01')
        os.makedirs(d, exist_ok=True)
        path = os.path.join(d, 'viol_atheris_%s.json' % ''.join(
            ch if ch.isalnum() or ch in '._-' else '_' for ch in key)[:90])
        with open(path, 'w') as f:
            json.dump({'property': 'C01', 'key': key, 'message': msg, 'case': case}, f, indent=1)
        raise RuntimeError('VIOLATION property=C01 %s replay=%s' % (key, path))


def seed_corpus(path):
    """Write the grammar's statement templates (simplest expansion) as seed inputs."""
    from vlib import c01gen
    os.makedirs(path, exist_ok=True)
    for i in range(len(c01gen.STATEMENTS)):
        text = c01gen.statement(i, [])
        with open(os.path.join(path, 'seed_%03d' % i), 'wb') as f:
            f.write(b'\x00' + text.encode('latin-1', 'replace'))


def main():
    for case in c01.REGRESSIONS:
        try:
            KNOWN.update(c01.check_case(case).keys())
        except Exception:           # noqa: B902
            pass
    dirs = [a for a in sys.argv[1:] if not a.startswith('-')]
    if dirs and not os.path.isdir(dirs[0]):
        seed_corpus(dirs[0])
    atheris.Setup(sys.argv, one_input)
    atheris.Fuzz()


if __name__ == '__main__':
    main()
